//! C14 — stream transfers lose or duplicate nothing under short I/O, EINTR and errors (E2).

use crate::explore::{explore_seq, Explorer};
use crate::interpose::{with_io_handler, IoAnswer, IoReq};
use crate::report::{hex, Ctx, Tier};
use serde_json::{json, Value};
use std::cell::RefCell;
use std::collections::BTreeSet;
use std::io::ErrorKind;
use std::os::fd::AsRawFd;
use std::rc::Rc;
use vm_memory::bitmap::BitmapSlice;
use vm_memory::{
    Bytes, GuestAddress, GuestMemory, GuestMemoryError, GuestMemoryMmap, GuestMemoryRegion,
    GuestRegionMmap, MemoryRegionAddress, ReadVolatile, VolatileMemoryError, VolatileSlice,
    WriteVolatile,
};

#[derive(Clone, Copy, Debug, PartialEq)]
pub enum Ans {
    Full,
    Short(usize),
    Zero,
    Eintr,
    /// a hard error; the index picks its kind (0 other/EIO, 1 WouldBlock/EAGAIN, 2 BrokenPipe/EPIPE,
    /// 3 TimedOut/ETIMEDOUT): every kind but an interruption ends the transfer and is reported
    Error(u8),
}

#[derive(Clone, Copy, Debug, PartialEq, Eq, PartialOrd, Ord)]
pub enum Form {
    ReadUpTo,
    ReadExact,
    WriteUpTo,
    WriteAll,
    TraitReadExact,
    TraitWriteAll,
}

impl Form {
    fn name(self) -> &'static str {
        match self {
            Form::ReadUpTo => "read_volatile_from",
            Form::ReadExact => "read_exact_volatile_from",
            Form::WriteUpTo => "write_volatile_to",
            Form::WriteAll => "write_all_volatile_to",
            Form::TraitReadExact => "ReadVolatile::read_exact_volatile",
            Form::TraitWriteAll => "WriteVolatile::write_all_volatile",
        }
    }
    fn is_read(self) -> bool {
        matches!(self, Form::ReadUpTo | Form::ReadExact | Form::TraitReadExact)
    }
    fn exact(self) -> bool {
        !matches!(self, Form::ReadUpTo | Form::WriteUpTo)
    }
}

#[derive(Clone, Copy, Debug, PartialEq, Eq, PartialOrd, Ord)]
pub enum TargetKind {
    Slice,
    Region,
    Memory,
}

#[derive(Clone, Copy, Debug, PartialEq, Eq, PartialOrd, Ord)]
pub enum StreamKind {
    Scripted,
    File,
}

const BASE: u64 = 0x1000;
const REG_A: usize = 8;
const REG_B: usize = 6;
const CELLS: usize = REG_A + REG_B; // slice and region targets are CELLS bytes long too
/// the guest-memory target has a third region behind a hole of HOLE bytes: no transfer that
/// starts in the first two regions may reach it, but a range may *end* in it
const HOLE: usize = 2;
const REG_D: usize = 6;

fn label(i: usize) -> u8 {
    0x10 + i as u8
}
fn stream_byte(i: usize) -> u8 {
    0xA0u8.wrapping_add(i as u8)
}

struct ScriptState {
    ex: *mut Explorer,
    calls: Vec<(usize, Ans)>,
    eintr_run: usize,
    max_calls: usize,
    all_shorts: bool,
    /// bytes delivered by the reader so far / accepted by the writer
    consumed: usize,
    accepted: Vec<u8>,
    /// answers given before the explorer is consulted (fixed prefixes such as long runs of EINTR)
    forced: std::collections::VecDeque<Ans>,
}

impl ScriptState {
    fn decide(&mut self, buf_len: usize) -> Ans {
        if let Some(a) = self.forced.pop_front() {
            let a = match a {
                Ans::Short(k) if k >= buf_len => Ans::Full,
                a => a,
            };
            self.calls.push((buf_len, a));
            return a;
        }
        let mut alts = vec![Ans::Full];
        if self.calls.len() < self.max_calls {
            if buf_len > 1 {
                let mut ks: Vec<usize> = if self.all_shorts {
                    (1..buf_len).collect()
                } else {
                    vec![1, buf_len / 2, buf_len - 1]
                };
                ks.sort();
                ks.dedup();
                for k in ks {
                    if k >= 1 && k < buf_len {
                        alts.push(Ans::Short(k));
                    }
                }
            }
            if buf_len > 0 {
                alts.push(Ans::Zero);
            }
            if self.eintr_run < 3 {
                alts.push(Ans::Eintr);
            }
            for k in 0..4u8 {
                alts.push(Ans::Error(k));
            }
        }
        let costs: Vec<u32> = alts.iter().map(|a| if *a == Ans::Full { 0 } else { 1 }).collect();
        // SAFETY: the explorer outlives the call under exploration
        let k = unsafe { (*self.ex).choose(alts.len(), &costs) };
        let a = alts[k];
        if a == Ans::Eintr {
            self.eintr_run += 1;
        } else {
            self.eintr_run = 0;
        }
        self.calls.push((buf_len, a));
        a
    }
}

fn scripted_error(k: u8) -> std::io::Error {
    let kind = match k {
        1 => ErrorKind::WouldBlock,
        2 => ErrorKind::BrokenPipe,
        3 => ErrorKind::TimedOut,
        _ => ErrorKind::Other,
    };
    std::io::Error::new(kind, "scripted hard error")
}

fn scripted_errno(k: u8) -> i32 {
    match k {
        1 => libc::EAGAIN,
        2 => libc::EPIPE,
        3 => libc::ETIMEDOUT,
        _ => libc::EIO,
    }
}

#[derive(Clone)]
struct Scripted(Rc<RefCell<ScriptState>>);

impl ReadVolatile for Scripted {
    fn read_volatile<B: BitmapSlice>(
        &mut self,
        buf: &mut VolatileSlice<B>,
    ) -> Result<usize, VolatileMemoryError> {
        let mut st = self.0.borrow_mut();
        let n = match st.decide(buf.len()) {
            Ans::Full => buf.len(),
            Ans::Short(k) => k,
            Ans::Zero => 0,
            Ans::Eintr => {
                return Err(VolatileMemoryError::IOError(std::io::Error::from(
                    ErrorKind::Interrupted,
                )))
            }
            Ans::Error(k) => return Err(VolatileMemoryError::IOError(scripted_error(k))),
        };
        let data: Vec<u8> = (0..n).map(|i| stream_byte(st.consumed + i)).collect();
        st.consumed += n;
        if n > 0 {
            let g = buf.ptr_guard_mut();
            // SAFETY: n <= buf.len()
            unsafe { std::ptr::copy_nonoverlapping(data.as_ptr(), g.as_ptr(), n) };
        }
        Ok(n)
    }
}

impl WriteVolatile for Scripted {
    fn write_volatile<B: BitmapSlice>(
        &mut self,
        buf: &VolatileSlice<B>,
    ) -> Result<usize, VolatileMemoryError> {
        let mut st = self.0.borrow_mut();
        let n = match st.decide(buf.len()) {
            Ans::Full => buf.len(),
            Ans::Short(k) => k,
            Ans::Zero => 0,
            Ans::Eintr => {
                return Err(VolatileMemoryError::IOError(std::io::Error::from(
                    ErrorKind::Interrupted,
                )))
            }
            Ans::Error(k) => return Err(VolatileMemoryError::IOError(scripted_error(k))),
        };
        if n > 0 {
            let g = buf.ptr_guard();
            let mut data = vec![0u8; n];
            // SAFETY: n <= buf.len()
            unsafe { std::ptr::copy_nonoverlapping(g.as_ptr(), data.as_mut_ptr(), n) };
            st.accepted.extend_from_slice(&data);
        }
        Ok(n)
    }
}

#[derive(Clone, Debug, PartialEq)]
enum ErrK {
    Interrupted,
    Scripted,
    UnexpectedEof,
    WriteZero,
    Partial { expected: usize, completed: usize },
    Other(String),
}

fn classify_io(e: &std::io::Error) -> ErrK {
    match e.kind() {
        ErrorKind::Interrupted => ErrK::Interrupted,
        ErrorKind::UnexpectedEof => ErrK::UnexpectedEof,
        ErrorKind::WriteZero => ErrK::WriteZero,
        _ => {
            if e.to_string().contains("scripted hard error") || matches!(e.raw_os_error(), Some(libc::EIO) | Some(libc::EAGAIN) | Some(libc::EPIPE) | Some(libc::ETIMEDOUT)) {
                ErrK::Scripted
            } else {
                ErrK::Other(format!("io:{}", e))
            }
        }
    }
}

fn classify_v(e: &VolatileMemoryError) -> ErrK {
    match e {
        VolatileMemoryError::IOError(e) => classify_io(e),
        VolatileMemoryError::PartialBuffer { expected, completed } => ErrK::Partial {
            expected: *expected,
            completed: *completed,
        },
        other => ErrK::Other(format!("{:?}", other)),
    }
}

fn classify_g(e: &GuestMemoryError) -> ErrK {
    match e {
        GuestMemoryError::IOError(e) => classify_io(e),
        GuestMemoryError::PartialBuffer { expected, completed } => ErrK::Partial {
            expected: *expected,
            completed: *completed,
        },
        other => ErrK::Other(format!("{:?}", other)),
    }
}

type Res = Result<Option<usize>, ErrK>;

struct Target {
    kind: TargetKind,
    buf: Vec<u8>,
    region: Option<GuestRegionMmap<()>>,
    memory: Option<GuestMemoryMmap<()>>,
}

impl Target {
    fn new(kind: TargetKind) -> Target {
        let mut t = Target {
            kind,
            buf: Vec::new(),
            region: None,
            memory: None,
        };
        match kind {
            TargetKind::Slice => {
                t.buf = (0..CELLS).map(label).collect();
            }
            TargetKind::Region => {
                let r = GuestRegionMmap::<()>::from_range(GuestAddress(BASE), CELLS, None).unwrap();
                t.region = Some(r);
            }
            TargetKind::Memory => {
                let m = GuestMemoryMmap::<()>::from_ranges(&[
                    (GuestAddress(BASE), REG_A),
                    (GuestAddress(BASE + REG_A as u64), REG_B),
                    (GuestAddress(BASE + (CELLS + HOLE) as u64), REG_D),
                ])
                .unwrap();
                t.memory = Some(m);
            }
        }
        t.set_labels();
        t
    }

    fn set_labels(&mut self) {
        let data: Vec<u8> = (0..CELLS + REG_D).map(label).collect();
        match self.kind {
            TargetKind::Slice => self.buf.copy_from_slice(&data[..CELLS]),
            TargetKind::Region => unsafe {
                std::ptr::copy_nonoverlapping(data.as_ptr(), self.region.as_ref().unwrap().as_ptr(), CELLS)
            },
            TargetKind::Memory => {
                let mut off = 0;
                for r in self.memory.as_ref().unwrap().iter() {
                    let l = r.len() as usize;
                    unsafe { std::ptr::copy_nonoverlapping(data[off..].as_ptr(), r.as_ptr(), l) };
                    off += l;
                }
            }
        }
    }

    fn contents(&self) -> Vec<u8> {
        match self.kind {
            TargetKind::Slice => self.buf.clone(),
            TargetKind::Region => unsafe {
                std::slice::from_raw_parts(self.region.as_ref().unwrap().as_ptr(), CELLS).to_vec()
            },
            TargetKind::Memory => {
                let mut v = Vec::new();
                for r in self.memory.as_ref().unwrap().iter() {
                    v.extend_from_slice(unsafe {
                        std::slice::from_raw_parts(r.as_ptr(), r.len() as usize)
                    });
                }
                v
            }
        }
    }

    fn call<S: ReadVolatile + WriteVolatile>(&mut self, form: Form, off: usize, count: usize, s: &mut S) -> Res {
        match self.kind {
            TargetKind::Slice => {
                let ptr = self.buf.as_mut_ptr();
                // SAFETY: buf outlives the slice
                let vs = unsafe { VolatileSlice::new(ptr, CELLS) };
                slice_call(&vs, form, off, count, s)
            }
            TargetKind::Region => {
                let r = self.region.as_ref().unwrap();
                let a = MemoryRegionAddress(off as u64);
                match form {
                    Form::ReadUpTo => r.read_volatile_from(a, s, count).map(Some).map_err(|e| classify_g(&e)),
                    Form::ReadExact => r.read_exact_volatile_from(a, s, count).map(|_| None).map_err(|e| classify_g(&e)),
                    Form::WriteUpTo => r.write_volatile_to(a, s, count).map(Some).map_err(|e| classify_g(&e)),
                    Form::WriteAll => r.write_all_volatile_to(a, s, count).map(|_| None).map_err(|e| classify_g(&e)),
                    Form::TraitReadExact | Form::TraitWriteAll => {
                        match r.get_slice(a, count) {
                            Ok(mut vs) => {
                                if form == Form::TraitReadExact {
                                    s.read_exact_volatile(&mut vs).map(|_| None).map_err(|e| classify_v(&e))
                                } else {
                                    s.write_all_volatile(&vs).map(|_| None).map_err(|e| classify_v(&e))
                                }
                            }
                            Err(e) => Err(classify_g(&e)),
                        }
                    }
                }
            }
            TargetKind::Memory => {
                let m = self.memory.as_ref().unwrap();
                let a = GuestAddress(BASE + off as u64);
                match form {
                    Form::ReadUpTo => m.read_volatile_from(a, s, count).map(Some).map_err(|e| classify_g(&e)),
                    Form::ReadExact => m.read_exact_volatile_from(a, s, count).map(|_| None).map_err(|e| classify_g(&e)),
                    Form::WriteUpTo => m.write_volatile_to(a, s, count).map(Some).map_err(|e| classify_g(&e)),
                    Form::WriteAll => m.write_all_volatile_to(a, s, count).map(|_| None).map_err(|e| classify_g(&e)),
                    Form::TraitReadExact | Form::TraitWriteAll => match m.get_slice(a, count) {
                        Ok(mut vs) => {
                            if form == Form::TraitReadExact {
                                s.read_exact_volatile(&mut vs).map(|_| None).map_err(|e| classify_v(&e))
                            } else {
                                s.write_all_volatile(&vs).map(|_| None).map_err(|e| classify_v(&e))
                            }
                        }
                        Err(e) => Err(classify_g(&e)),
                    },
                }
            }
        }
    }

    /// number of consecutively mapped bytes from `off`, and whether a single contiguous slice of
    /// `count` bytes exists there (needed by the trait-level forms, which work on one slice)
    fn run(&self, off: usize) -> usize {
        CELLS.saturating_sub(off)
    }
    fn one_slice(&self, off: usize, count: usize) -> bool {
        match self.kind {
            TargetKind::Memory => {
                if off < REG_A {
                    off + count <= REG_A
                } else {
                    off < CELLS && off + count <= CELLS
                }
            }
            _ => off + count <= CELLS,
        }
    }
}

fn slice_call<S: ReadVolatile + WriteVolatile>(
    vs: &VolatileSlice<()>,
    form: Form,
    off: usize,
    count: usize,
    s: &mut S,
) -> Res {
    use vm_memory::VolatileMemory;
    match form {
        Form::ReadUpTo => vs.read_volatile_from(off, s, count).map(Some).map_err(|e| classify_v(&e)),
        Form::ReadExact => vs.read_exact_volatile_from(off, s, count).map(|_| None).map_err(|e| classify_v(&e)),
        Form::WriteUpTo => vs.write_volatile_to(off, s, count).map(Some).map_err(|e| classify_v(&e)),
        Form::WriteAll => vs.write_all_volatile_to(off, s, count).map(|_| None).map_err(|e| classify_v(&e)),
        Form::TraitReadExact | Form::TraitWriteAll => match vs.get_slice(off, count) {
            Ok(mut sub) => {
                if form == Form::TraitReadExact {
                    s.read_exact_volatile(&mut sub).map(|_| None).map_err(|e| classify_v(&e))
                } else {
                    s.write_all_volatile(&sub).map(|_| None).map_err(|e| classify_v(&e))
                }
            }
            Err(e) => Err(classify_v(&e)),
        },
    }
}

#[derive(Clone, Debug)]
pub struct Case {
    pub target: TargetKind,
    pub stream: StreamKind,
    pub form: Form,
    pub off: usize,
    pub count: usize,
}

impl Case {
    fn to_json(&self) -> Value {
        json!({"target": format!("{:?}", self.target), "stream": format!("{:?}", self.stream), "form": self.form.name(),
               "form_id": format!("{:?}", self.form), "offset": self.off, "count": self.count,
               "layout": match self.target { TargetKind::Memory => format!("regions [0x1000,+{}) [0x{:x},+{}), a hole of {} bytes, [0x{:x},+{})", REG_A, BASE as usize + REG_A, REG_B, HOLE, BASE as usize + CELLS + HOLE, REG_D), _ => format!("{} bytes", CELLS) }})
    }
    fn from_json(v: &Value) -> Option<Case> {
        let target = match v.get("target")?.as_str()? {
            "Slice" => TargetKind::Slice,
            "Region" => TargetKind::Region,
            "Memory" => TargetKind::Memory,
            _ => return None,
        };
        let stream = match v.get("stream")?.as_str()? {
            "Scripted" => StreamKind::Scripted,
            "File" => StreamKind::File,
            _ => return None,
        };
        let form = match v.get("form_id")?.as_str()? {
            "ReadUpTo" => Form::ReadUpTo,
            "ReadExact" => Form::ReadExact,
            "WriteUpTo" => Form::WriteUpTo,
            "WriteAll" => Form::WriteAll,
            "TraitReadExact" => Form::TraitReadExact,
            "TraitWriteAll" => Form::TraitWriteAll,
            _ => return None,
        };
        Some(Case {
            target,
            stream,
            form,
            off: v.get("offset")?.as_u64()? as usize,
            count: v.get("count")?.as_u64()? as usize,
        })
    }
}

struct Exec {
    calls: Vec<(usize, Ans)>,
    result: Res,
    violation: Option<(String, String)>,
    after: Vec<u8>,
}

fn execute(case: &Case, ex: &mut Explorer, max_calls: usize, all_shorts: bool) -> Exec {
    execute_seq(std::slice::from_ref(case), ex, max_calls, all_shorts)
}

thread_local! {
    static FORCED: RefCell<Vec<Ans>> = const { RefCell::new(Vec::new()) };
}

/// One transfer whose stream first gives the answers of `prefix`, then always the default.
fn execute_forced(case: &Case, prefix: Vec<Ans>) -> Exec {
    FORCED.with(|f| *f.borrow_mut() = prefix);
    let mut ex = Explorer::for_replay(&[]);
    ex.begin();
    let e = execute_seq(std::slice::from_ref(case), &mut ex, 0, false);
    FORCED.with(|f| f.borrow_mut().clear());
    e
}

/// Runs the transfers of `cases` one after the other on the same target and the same scripted
/// stream (the stream's script and its byte position carry over); every transfer is judged.
fn execute_seq(cases: &[Case], ex: &mut Explorer, max_calls: usize, all_shorts: bool) -> Exec {
    let mut t = Target::new(cases[0].target);
    let st = Rc::new(RefCell::new(ScriptState {
        ex: ex as *mut Explorer,
        calls: Vec::new(),
        eintr_run: 0,
        max_calls,
        all_shorts,
        consumed: 0,
        accepted: Vec::new(),
        forced: FORCED.with(|f| f.borrow().iter().cloned().collect()),
    }));
    let mut last: Option<Exec> = None;
    for case in cases {
    let before = t.contents();
    let (calls_before, consumed_before, accepted_before) = {
        let s = st.borrow();
        (s.calls.len(), s.consumed, s.accepted.len())
    };
    let result: Res = match case.stream {
        StreamKind::Scripted => {
            let mut s = Scripted(st.clone());
            t.call(case.form, case.off, case.count, &mut s)
        }
        StreamKind::File => {
            // the real raw-fd adapter over interposed read(2)/write(2)
            let mut f = std::fs::OpenOptions::new().read(true).write(true).open("/dev/null").unwrap();
            let fd = f.as_raw_fd();
            let st2 = st.clone();
            let handler = Box::new(move |r: &IoReq| -> IoAnswer {
                if r.fd != fd {
                    return IoAnswer::Pass;
                }
                let mut st = st2.borrow_mut();
                let n = match st.decide(r.count) {
                    Ans::Full => r.count,
                    Ans::Short(k) => k,
                    Ans::Zero => 0,
                    Ans::Eintr => return IoAnswer::Err(libc::EINTR),
                    Ans::Error(k) => return IoAnswer::Err(scripted_errno(k)),
                };
                if r.is_read {
                    for i in 0..n {
                        // SAFETY: n <= count
                        unsafe { *r.buf.add(i) = stream_byte(st.consumed + i) };
                    }
                    st.consumed += n;
                } else {
                    let data = unsafe { std::slice::from_raw_parts(r.buf, n) }.to_vec();
                    st.accepted.extend_from_slice(&data);
                }
                IoAnswer::Ret(n)
            });
            with_io_handler(handler, || t.call(case.form, case.off, case.count, &mut f))
        }
    };
    let after = t.contents();
    let st = st.borrow();
    let calls: Vec<(usize, Ans)> = st.calls[calls_before..].to_vec();
    let mut violation: Option<(String, String)> = None;
    let mut fail = |k: &str, d: String| {
        if violation.is_none() {
            violation = Some((k.to_string(), d));
        }
    };
    let had_error = calls.iter().any(|c| matches!(c.1, Ans::Error(_)));
    let had_zero = calls.iter().any(|c| c.1 == Ans::Zero && c.0 > 0);
    let run = t.run(case.off);
    let avail = run.min(case.count);
    let fits = match case.form {
        Form::TraitReadExact | Form::TraitWriteAll => t.one_slice(case.off, case.count),
        Form::ReadExact | Form::WriteAll => match case.target {
            TargetKind::Memory => run >= case.count,
            _ => case.off + case.count <= CELLS,
        },
        _ => true,
    };
    // 1. an interruption is never reported
    if result == Err(ErrK::Interrupted) {
        fail("eintr-surfaced", "an interrupted stream call was reported to the caller instead of being retried".into());
    }
    // 2. a hard error ends the transfer and is reported
    if had_error {
        if !matches!(calls.last().map(|c| c.1), Some(Ans::Error(_))) {
            fail("call-after-error", format!("the stream was called again after a hard error: {:?}", calls));
        }
        if result != Err(ErrK::Scripted) {
            fail("error-not-reported", format!("the stream failed with a hard error but the call returned {:?}", result));
        }
    }
    // 2'. end-of-stream ends a read: the reader is not asked again after it answered Ok(0)
    if case.form.is_read() {
        if let Some(z) = calls.iter().position(|c| c.1 == Ans::Zero && c.0 > 0) {
            if z + 1 != calls.len() {
                fail("call-after-end-of-stream", format!("the reader was called again after it reported end of stream: {:?}", calls));
            }
        }
    }
    // 3. never ask the stream for more than the remaining part of the request
    {
        let mut moved = 0usize;
        for (len, a) in &calls {
            if *len > avail.saturating_sub(moved) {
                fail("stream-asked-for-too-much", format!("a stream call offered {} bytes with only {} of the request left ({:?})", len, avail.saturating_sub(moved), calls));
                break;
            }
            moved += match a {
                Ans::Full => *len,
                Ans::Short(k) => *k,
                _ => 0,
            };
        }
    }
    let moved: usize = calls
        .iter()
        .map(|(len, a)| match a {
            Ans::Full => *len,
            Ans::Short(k) => *k,
            _ => 0,
        })
        .sum();
    if case.form.is_read() {
        // 4. every byte consumed from the reader is stored at the next guest address, in order
        let mut expect = before.clone();
        for i in 0..moved {
            if case.off + i < expect.len() {
                expect[case.off + i] = stream_byte(consumed_before + i);
            }
        }
        if after != expect {
            fail("bytes-lost-or-misplaced", format!("reader delivered {} byte(s); guest memory is {} but should be {}", moved, hex(&after), hex(&expect)));
        }
    } else {
        // 4'. every byte handed to the writer is the next guest byte in order; memory unchanged
        let accepted_now: Vec<u8> = st.accepted[accepted_before..].to_vec();
        let want: Vec<u8> = before.iter().skip(case.off).take(accepted_now.len()).cloned().collect();
        if accepted_now != want || accepted_now.len() != moved {
            fail("bytes-lost-or-duplicated", format!("writer accepted {} but the guest bytes in order are {}", hex(&accepted_now), hex(&want)));
        }
        if after != before {
            fail("memory-changed-by-write-out", format!("guest memory changed from {} to {}", hex(&before), hex(&after)));
        }
    }
    // 5. result value
    match (&result, case.form.exact()) {
        (Ok(Some(n)), false) => {
            if *n != moved {
                fail("wrong-count", format!("returned Ok({}) but {} byte(s) were moved", n, moved));
            }
        }
        (Ok(None), true) => {
            if moved != case.count {
                fail("exact-ok-but-incomplete", format!("exact form returned Ok but only {} of {} byte(s) were moved", moved, case.count));
            }
        }
        (Err(e), exact) => {
            // is the error justified?
            let unmapped_start = case.off >= CELLS && case.count > 0;
            let at_end = case.off == CELLS;
            let writer_zero_memlevel = !case.form.is_read() && had_zero && case.target == TargetKind::Memory;
            let justified = had_error
                || unmapped_start
                || at_end
                || (exact && (!fits || had_zero))
                || writer_zero_memlevel;
            if !justified && *e != ErrK::Interrupted {
                fail("spurious-error", format!("returned Err({:?}) although the stream never failed or ended and the range is valid; calls {:?}", e, calls));
            }
            if let ErrK::Partial { expected, completed } = e {
                if *expected != case.count || *completed != moved {
                    fail("wrong-partial-count", format!("reported {{expected:{}, completed:{}}} but count={} moved={}", expected, completed, case.count, moved));
                }
            }
        }
        (Ok(x), exact) => fail("malformed-result", format!("{:?} for exact={}", x, exact)),
    }
    drop(st);
    let failed = violation.is_some();
    last = Some(Exec {
        calls,
        result,
        violation,
        after,
    });
    if failed {
        break;
    }
    }
    last.unwrap()
}

fn cases(tier: Tier) -> Vec<Case> {
    let mut v = Vec::new();
    let counts: &[usize] = &[0, 1, 5, 8, 9, 13];
    let offs: &[usize] = &[0, 3, 6];
    for target in [TargetKind::Slice, TargetKind::Region, TargetKind::Memory] {
        for stream in [StreamKind::Scripted, StreamKind::File] {
            for form in [
                Form::ReadUpTo,
                Form::ReadExact,
                Form::WriteUpTo,
                Form::WriteAll,
                Form::TraitReadExact,
                Form::TraitWriteAll,
            ] {
                if stream == StreamKind::File && !tier.thorough() && target == TargetKind::Slice && matches!(form, Form::TraitReadExact | Form::TraitWriteAll) {
                    // quick tier: trait-level forms over a file are covered at region level
                    continue;
                }
                for &off in offs {
                    for &count in counts {
                        v.push(Case {
                            target,
                            stream,
                            form,
                            off,
                            count,
                        });
                    }
                }
            }
        }
    }
    v
}

/// A stream over a large buffer whose calls move at most the scripted number of bytes (after the
/// script: everything asked for).
struct BigStream {
    data: Vec<u8>,
    pos: usize,
    script: Vec<usize>,
    calls: usize,
    cap: usize,
    /// the call with this index (0-based) fails with EIO instead of moving anything
    fail_at: Option<usize>,
    failed: bool,
}

impl BigStream {
    fn refuse(&mut self) -> bool {
        if self.fail_at == Some(self.calls) {
            self.calls += 1;
            self.failed = true;
            return true;
        }
        false
    }
    fn quota(&mut self, want: usize) -> usize {
        let q = self.script.get(self.calls).copied().unwrap_or(self.cap);
        self.calls += 1;
        q.min(want)
    }
}

impl ReadVolatile for BigStream {
    fn read_volatile<B: BitmapSlice>(&mut self, buf: &mut VolatileSlice<B>) -> Result<usize, VolatileMemoryError> {
        if self.refuse() {
            return Err(VolatileMemoryError::IOError(std::io::Error::from_raw_os_error(libc::EIO)));
        }
        let n = self.quota(buf.len()).min(self.data.len() - self.pos);
        if n > 0 {
            buf.write_slice(&self.data[self.pos..self.pos + n], 0)?;
        }
        self.pos += n;
        Ok(n)
    }
}

impl WriteVolatile for BigStream {
    fn write_volatile<B: BitmapSlice>(&mut self, buf: &VolatileSlice<B>) -> Result<usize, VolatileMemoryError> {
        if self.refuse() {
            return Err(VolatileMemoryError::IOError(std::io::Error::from_raw_os_error(libc::EIO)));
        }
        let n = self.quota(buf.len());
        let mut tmp = vec![0u8; n];
        if n > 0 {
            buf.read_slice(&mut tmp, 0)?;
        }
        self.data.extend_from_slice(&tmp);
        Ok(n)
    }
}

/// Transfers of several MiB in one call, with short calls placed around 2^20 and 2^21 bytes and
/// with a stream that never moves more than 700001 bytes at a time: at slice, region and
/// guest-memory (two regions) level, all four forms. Nothing lost, nothing duplicated, the exact
/// forms complete.
fn large_transfers(ctx: &Ctx, thorough: bool) -> u64 {
    const M: usize = 1 << 20;
    let total = 3 * M + 4096 + 5;
    let region = GuestRegionMmap::<()>::from_range(GuestAddress(0x10_0000), total, None).unwrap();
    let memory = GuestMemoryMmap::<()>::from_ranges(&[(GuestAddress(0x10_0000), 2 * M + 3), (GuestAddress(0x10_0000 + 2 * M as u64 + 3), total - 2 * M - 3)]).unwrap();
    let pattern = |salt: u8, n: usize| -> Vec<u8> { (0..n).map(|i| ((i as u32).wrapping_mul(2654435761) >> 24) as u8 ^ salt).collect() };
    // (the third component: the index of the stream call that fails with EIO, if any)
    let fail_scripts: Vec<(Vec<usize>, usize, Option<usize>)> = vec![(vec![], usize::MAX, Some(1)), (vec![2048], usize::MAX, Some(1)), (vec![5000, 5000], usize::MAX, Some(2)), (vec![], 700_001, Some(3)), (vec![], usize::MAX, Some(0))];
    let mut scripts: Vec<(Vec<usize>, usize)> = vec![(vec![], usize::MAX), (vec![1], usize::MAX), (vec![M - 1], usize::MAX), (vec![M], usize::MAX), (vec![M + 1], usize::MAX), (vec![2 * M + 5], usize::MAX), (vec![], 700_001)];
    if thorough {
        scripts.extend([(vec![M, 1], usize::MAX), (vec![M + 1, M - 1], usize::MAX), (vec![], M), (vec![], M + 1), (vec![5, 5, 5], 1 << 19)]);
    }
    let mut t = 0u64;
    for level in 0..3usize {
        for form in [Form::ReadUpTo, Form::ReadExact, Form::WriteUpTo, Form::WriteAll] {
            for (off, count) in [(0usize, total), (3, 2 * M + 7), (M - 1, M + 2)] {
                let all_scripts: Vec<(Vec<usize>, usize, Option<usize>)> = scripts.iter().map(|(a, b)| (a.clone(), *b, None)).chain(fail_scripts.iter().cloned()).collect();
                for (script, cap, fail_at) in &all_scripts {
                    t += 1;
                    ctx.case(true);
                    // fill guest memory with a pattern
                    let fill = pattern(0x11, total);
                    let set = |data: &[u8]| match level {
                        2 => {
                            let mut o = 0;
                            for r in memory.iter() {
                                let l = r.len() as usize;
                                unsafe { std::ptr::copy_nonoverlapping(data[o..].as_ptr(), r.as_ptr(), l) };
                                o += l;
                            }
                        }
                        _ => unsafe { std::ptr::copy_nonoverlapping(data.as_ptr(), region.as_ptr(), total) },
                    };
                    let get = || -> Vec<u8> {
                        match level {
                            2 => {
                                let mut v = Vec::with_capacity(total);
                                for r in memory.iter() {
                                    v.extend_from_slice(unsafe { std::slice::from_raw_parts(r.as_ptr(), r.len() as usize) });
                                }
                                v
                            }
                            _ => unsafe { std::slice::from_raw_parts(region.as_ptr(), total) }.to_vec(),
                        }
                    };
                    set(&fill);
                    let reading = matches!(form, Form::ReadUpTo | Form::ReadExact);
                    let mut s = BigStream { data: if reading { pattern(0xa7, count + 64) } else { Vec::new() }, pos: 0, script: script.clone(), calls: 0, cap: *cap, fail_at: *fail_at, failed: false };
                    let res: Res = match level {
                        0 => {
                            let vs = region.as_volatile_slice().unwrap();
                            slice_call(&vs, form, off, count, &mut s)
                        }
                        1 => {
                            let a = MemoryRegionAddress(off as u64);
                            match form {
                                Form::ReadUpTo => region.read_volatile_from(a, &mut s, count).map(Some).map_err(|e| classify_g(&e)),
                                Form::ReadExact => region.read_exact_volatile_from(a, &mut s, count).map(|_| None).map_err(|e| classify_g(&e)),
                                Form::WriteUpTo => region.write_volatile_to(a, &mut s, count).map(Some).map_err(|e| classify_g(&e)),
                                _ => region.write_all_volatile_to(a, &mut s, count).map(|_| None).map_err(|e| classify_g(&e)),
                            }
                        }
                        _ => {
                            let a = GuestAddress(0x10_0000 + off as u64);
                            match form {
                                Form::ReadUpTo => memory.read_volatile_from(a, &mut s, count).map(Some).map_err(|e| classify_g(&e)),
                                Form::ReadExact => memory.read_exact_volatile_from(a, &mut s, count).map(|_| None).map_err(|e| classify_g(&e)),
                                Form::WriteUpTo => memory.write_volatile_to(a, &mut s, count).map(Some).map_err(|e| classify_g(&e)),
                                _ => memory.write_all_volatile_to(a, &mut s, count).map(|_| None).map_err(|e| classify_g(&e)),
                            }
                        }
                    };
                    let after = get();
                    let mut bad: Option<(&str, String)> = None;
                    if fail_at.is_some() {
                        // a stream call that failed: the error surfaces, and what arrived before it
                        // is in place, in order, nothing else changed
                        if s.failed && res.is_ok() {
                            bad = Some(("error-swallowed", format!("the stream's call {} failed with EIO, the transfer returned {:?}", fail_at.unwrap(), res)));
                        } else if reading {
                            let mut want = fill.clone();
                            want[off..off + s.pos].copy_from_slice(&s.data[..s.pos]);
                            if after != want {
                                let i = (0..total).find(|i| after[*i] != want[*i]).unwrap();
                                bad = Some(("memory-after-error", format!("{} bytes were delivered before the error; guest byte {:#x} is {:#04x}, expected {:#04x}", s.pos, i, after[i], want[i])));
                            }
                        } else if after != fill || s.data.len() > count || s.data[..] != fill[off..off + s.data.len()] {
                            bad = Some(("sink-after-error", format!("the sink holds {} bytes that are not the guest's bytes in order, or guest memory changed", s.data.len())));
                        }
                        if let Some((k, d)) = bad {
                            let lv = ["slice", "region", "guest memory (two regions)"][level];
                            let key = format!("C14/large-transfer/{}/{}/{}", lv, form.name(), k);
                            let rp = if ctx.has_failed(&key) { Value::Null } else { json!({"level": lv, "form": form.name(), "offset": off, "count": count, "short_calls": script, "failing_call": fail_at}) };
                            ctx.fail(&key, &format!("{} bytes at {:#x}, short calls {:?}, call {:?} fails: {}", count, off, script, fail_at, d), rp);
                        }
                        continue;
                    }
                    let n = match &res {
                        Ok(Some(n)) => Some(*n),
                        Ok(None) => Some(count),
                        Err(e) => {
                            bad = Some(("result", format!("returned {:?} although the stream can serve the whole transfer", e)));
                            None
                        }
                    };
                    if let Some(n) = n {
                        if n == 0 || n > count || (matches!(form, Form::ReadExact | Form::WriteAll) && n != count) {
                            bad = Some(("count", format!("moved {} of {} bytes", n, count)));
                        } else if reading {
                            let mut want = fill.clone();
                            want[off..off + n].copy_from_slice(&s.data[..n]);
                            if after != want {
                                let i = (0..total).find(|i| after[*i] != want[*i]).unwrap();
                                bad = Some(("memory", format!("after {:?} of {} bytes at {:#x}: guest byte {:#x} is {:#04x}, the stream's byte {} is {:#04x}", res, count, off, i, after[i], i.wrapping_sub(off), want[i])));
                            } else if s.pos != n {
                                bad = Some(("consumed", format!("{} bytes taken from the stream, {} stored", s.pos, n)));
                            }
                        } else if after != fill {
                            bad = Some(("memory", "a transfer out of guest memory changed it".into()));
                        } else if s.data[..] != fill[off..off + n] {
                            let i = (0..s.data.len().min(n)).find(|i| s.data[*i] != fill[off + *i]);
                            bad = Some(("sink", format!("the sink holds {} bytes, {} reported; first difference at {:?}", s.data.len(), n, i)));
                        }
                    }
                    if let Some((k, d)) = bad {
                        let lv = ["slice", "region", "guest memory (two regions)"][level];
                        let key = format!("C14/large-transfer/{}/{}/{}", lv, form.name(), k);
                        let rp = if ctx.has_failed(&key) { Value::Null } else { json!({"level": lv, "form": form.name(), "offset": off, "count": count, "short_calls": script, "per_call_cap": if *cap == usize::MAX { json!(null) } else { json!(cap) }}) };
                        ctx.fail(&key, &format!("{} bytes at {:#x}, short calls {:?}, per-call cap {:?}: {}", count, off, script, if *cap == usize::MAX { None } else { Some(cap) }, d), rp);
                    }
                }
            }
        }
    }
    t
}

/// Host byte buffers as readers (&[u8], Cursor<&[u8]>, Cursor<Vec<u8>>) that hold fewer, as many
/// or more bytes than a transfer asks for, at slice, region and guest-memory level: whether the
/// transfer succeeds or fails, exactly the bytes that left the reader are in guest memory, in
/// order, and nothing else changed - a second transfer from the same reader continues there.
fn host_buffer_readers(ctx: &Ctx) -> u64 {
    use std::io::Cursor;
    let region = GuestRegionMmap::<()>::from_range(GuestAddress(BASE), CELLS, None).unwrap();
    let memory = GuestMemoryMmap::<()>::from_ranges(&[(GuestAddress(BASE), REG_A), (GuestAddress(BASE + REG_A as u64), REG_B)]).unwrap();
    let mut t = 0u64;
    fn go<R: ReadVolatile>(level: usize, exact: bool, off: usize, count: usize, r: &mut R, region: &GuestRegionMmap<()>, memory: &GuestMemoryMmap<()>) -> Result<Option<usize>, String> {
        match level {
            0 => {
                let vs = region.as_volatile_slice().unwrap();
                if exact { vs.read_exact_volatile_from(off, r, count).map(|_| None).map_err(|e| format!("{:?}", e)) } else { vs.read_volatile_from(off, r, count).map(Some).map_err(|e| format!("{:?}", e)) }
            }
            1 => {
                let a = MemoryRegionAddress(off as u64);
                if exact { region.read_exact_volatile_from(a, r, count).map(|_| None).map_err(|e| format!("{:?}", e)) } else { region.read_volatile_from(a, r, count).map(Some).map_err(|e| format!("{:?}", e)) }
            }
            _ => {
                let a = GuestAddress(BASE + off as u64);
                if exact { memory.read_exact_volatile_from(a, r, count).map(|_| None).map_err(|e| format!("{:?}", e)) } else { memory.read_volatile_from(a, r, count).map(Some).map_err(|e| format!("{:?}", e)) }
            }
        }
    }
    for level in 0..3usize {
        for kind in 0..3usize {
            for (have, off, count) in [(0usize, 2usize, 5usize), (3, 2, 5), (7, 1, 11), (5, 2, 5), (9, 3, 5), (4, 6, 6), (1, 0, 14)] {
                for exact in [true, false] {
                    t += 1;
                    ctx.case(true);
                    let fill: Vec<u8> = (0..CELLS).map(label).collect();
                    let set = || {
                        if level == 2 {
                            let mut o = 0;
                            for r in memory.iter() {
                                unsafe { std::ptr::copy_nonoverlapping(fill[o..].as_ptr(), r.as_ptr(), r.len() as usize) };
                                o += r.len() as usize;
                            }
                        } else {
                            unsafe { std::ptr::copy_nonoverlapping(fill.as_ptr(), region.as_ptr(), CELLS) };
                        }
                    };
                    let get = || -> Vec<u8> {
                        if level == 2 {
                            memory.iter().flat_map(|r| unsafe { std::slice::from_raw_parts(r.as_ptr(), r.len() as usize) }.to_vec()).collect()
                        } else {
                            unsafe { std::slice::from_raw_parts(region.as_ptr(), CELLS) }.to_vec()
                        }
                    };
                    set();
                    let data: Vec<u8> = (0..have + 6).map(stream_byte).collect();
                    let avail = &data[..have];
                    // first transfer, then a second one of 3 bytes from the same reader
                    let (res, left_after_first, res2, left_after_second): (Result<Option<usize>, String>, usize, Result<Option<usize>, String>, usize) = match kind {
                        0 => {
                            let mut r: &[u8] = avail;
                            let a = go(level, exact, off, count, &mut r, &region, &memory);
                            let l1 = r.len();
                            let b = go(level, false, 0, 3.min(CELLS), &mut r, &region, &memory);
                            (a, l1, b, r.len())
                        }
                        1 => {
                            let mut r = Cursor::new(avail);
                            let a = go(level, exact, off, count, &mut r, &region, &memory);
                            let l1 = have - (r.position() as usize).min(have);
                            let b = go(level, false, 0, 3.min(CELLS), &mut r, &region, &memory);
                            (a, l1, b, have - (r.position() as usize).min(have))
                        }
                        _ => {
                            let mut r = Cursor::new(avail.to_vec());
                            let a = go(level, exact, off, count, &mut r, &region, &memory);
                            let l1 = have - (r.position() as usize).min(have);
                            let b = go(level, false, 0, 3.min(CELLS), &mut r, &region, &memory);
                            (a, l1, b, have - (r.position() as usize).min(have))
                        }
                    };
                    let consumed1 = have - left_after_first;
                    let consumed2 = left_after_first - left_after_second;
                    let after = get();
                    let mut want = fill.clone();
                    let n1 = consumed1.min(CELLS - off);
                    want[off..off + n1].copy_from_slice(&data[..n1]);
                    let n2 = consumed2.min(3);
                    want[..n2].copy_from_slice(&data[consumed1..consumed1 + n2]);
                    let mut bad: Option<(&str, String)> = None;
                    if after != want {
                        bad = Some(("consumed-bytes-not-in-memory", format!("the reader gave up {} + {} bytes; guest memory is {} but should be {}", consumed1, consumed2, hex(&after), hex(&want))));
                    } else if consumed1 > count || (exact && res.is_ok() && consumed1 != count) || (exact && have >= count && res.is_err()) || (exact && have < count && res.is_ok()) {
                        bad = Some(("result", format!("reader held {} bytes, {} requested ({}): returned {:?} after taking {} bytes", have, count, if exact { "exact" } else { "up to" }, res, consumed1)));
                    } else if !exact && res != Ok(Some(have.min(count))) && count > 0 {
                        bad = Some(("result", format!("reader held {} bytes, up to {} requested: returned {:?}", have, count, res)));
                    } else if res2 != Ok(Some(left_after_first.min(3))) {
                        bad = Some(("second-transfer", format!("{} bytes were left in the reader, a second transfer of up to 3 returned {:?}", left_after_first, res2)));
                    }
                    if let Some((k, d)) = bad {
                        let lv = ["slice", "region", "guest memory"][level];
                        let rk = ["&[u8]", "Cursor<&[u8]>", "Cursor<Vec<u8>>"][kind];
                        let key = format!("C14/host-buffer-reader/{}/{}/{}/{}", lv, rk, if exact { "read_exact_volatile_from" } else { "read_volatile_from" }, k);
                        let rp = if ctx.has_failed(&key) { Value::Null } else { json!({"level": lv, "reader": rk, "reader_holds": have, "offset": off, "count": count, "exact": exact}) };
                        ctx.fail(&key, &format!("offset {} count {}: {}", off, count, d), rp);
                    }
                }
            }
        }
    }
    t
}

/// Host byte buffers as writers (&mut [u8], Cursor<&mut [u8]>, Vec<u8>) with room
/// for fewer, as many or more bytes than a drain asks for, at slice, region and guest-memory level
/// (the range crosses the region boundary): what the sink reports as accepted is the next guest
/// bytes in order, the rest of the sink is untouched, and a second drain into the same sink
/// continues behind the first instead of overwriting it.
fn host_buffer_writers(ctx: &Ctx) -> u64 {
    use std::io::Cursor;
    let region = GuestRegionMmap::<()>::from_range(GuestAddress(BASE), CELLS, None).unwrap();
    let memory = GuestMemoryMmap::<()>::from_ranges(&[(GuestAddress(BASE), REG_A), (GuestAddress(BASE + REG_A as u64), REG_B)]).unwrap();
    let fill: Vec<u8> = (0..CELLS).map(label).collect();
    unsafe { std::ptr::copy_nonoverlapping(fill.as_ptr(), region.as_ptr(), CELLS) };
    let mut o = 0;
    for r in memory.iter() {
        unsafe { std::ptr::copy_nonoverlapping(fill[o..].as_ptr(), r.as_ptr(), r.len() as usize) };
        o += r.len() as usize;
    }
    fn go<W: WriteVolatile>(level: usize, exact: bool, off: usize, count: usize, w: &mut W, region: &GuestRegionMmap<()>, memory: &GuestMemoryMmap<()>) -> Result<Option<usize>, String> {
        match level {
            0 => {
                let vs = region.as_volatile_slice().unwrap();
                if exact { vs.write_all_volatile_to(off, w, count).map(|_| None).map_err(|e| format!("{:?}", e)) } else { vs.write_volatile_to(off, w, count).map(Some).map_err(|e| format!("{:?}", e)) }
            }
            1 => {
                let a = MemoryRegionAddress(off as u64);
                if exact { region.write_all_volatile_to(a, w, count).map(|_| None).map_err(|e| format!("{:?}", e)) } else { region.write_volatile_to(a, w, count).map(Some).map_err(|e| format!("{:?}", e)) }
            }
            _ => {
                let a = GuestAddress(BASE + off as u64);
                if exact { memory.write_all_volatile_to(a, w, count).map(|_| None).map_err(|e| format!("{:?}", e)) } else { memory.write_volatile_to(a, w, count).map(Some).map_err(|e| format!("{:?}", e)) }
            }
        }
    }
    const SINK: u8 = 0xEE;
    let mut t = 0u64;
    for level in 0..3usize {
        for kind in 0..3usize {
            for (room, off, count) in [(0usize, 2usize, 5usize), (3, 2, 5), (7, 1, 11), (5, 2, 5), (9, 3, 5), (4, 6, 6), (1, 0, 14), (10, 6, 6), (13, 5, 8)] {
                for exact in [true, false] {
                    for start in [0usize, 2] {
                        t += 1;
                        ctx.case(true);
                        // the sink: `start` bytes already used, `room` bytes free (vectors grow)
                        let total = start + room;
                        let mut backing = vec![SINK; total];
                        let unlimited = kind >= 2;
                        // (first result, accepted by the first, second result, accepted by the second, sink bytes)
                        let (res, acc1, res2, acc2, sink): (Result<Option<usize>, String>, usize, Result<Option<usize>, String>, usize, Vec<u8>) = match kind {
                            0 => {
                                let mut w: &mut [u8] = &mut backing[start..];
                                let a = go(level, exact, off, count, &mut w, &region, &memory);
                                let l1 = w.len();
                                let b = go(level, false, 0, 3, &mut w, &region, &memory);
                                let l2 = w.len();
                                (a, room - l1, b, l1 - l2, backing[start..].to_vec())
                            }
                            1 => {
                                let mut w = Cursor::new(&mut backing[..]);
                                w.set_position(start as u64);
                                let a = go(level, exact, off, count, &mut w, &region, &memory);
                                let p1 = w.position() as usize;
                                let b = go(level, false, 0, 3, &mut w, &region, &memory);
                                let p2 = w.position() as usize;
                                (a, p1.saturating_sub(start), b, p2.saturating_sub(p1), backing[start..].to_vec())
                            }
                            _ => {
                                let mut w = vec![SINK; start];
                                let a = go(level, exact, off, count, &mut w, &region, &memory);
                                let l1 = w.len();
                                let b = go(level, false, 0, 3, &mut w, &region, &memory);
                                let l2 = w.len();
                                (a, l1 - start, b, l2 - l1, w[start..].to_vec())
                            }
                        };
                        let cap = if unlimited { usize::MAX } else { room };
                        let avail = CELLS - off; // guest bytes from `off` to the end of the target
                        let want1 = count.min(avail).min(cap);
                        let want2 = 3.min(cap - want1.min(cap));
                        let mut want_sink: Vec<u8> = fill[off..off + want1].to_vec();
                        want_sink.extend_from_slice(&fill[..want2]);
                        if !unlimited {
                            want_sink.resize(room, SINK);
                        }
                        let mut bad: Option<(&str, String)> = None;
                        if acc1 != want1 || acc2 != want2 {
                            bad = Some(("accepted-count", format!("the sink reports {} + {} bytes accepted, expected {} + {}", acc1, acc2, want1, want2)));
                        } else if sink != want_sink {
                            bad = Some(("sink-bytes", format!("the sink holds {} but should hold {} (guest bytes in order, the rest untouched)", hex(&sink), hex(&want_sink))));
                        } else if exact && (res.is_ok() != (want1 == count)) {
                            bad = Some(("result", format!("room for {} bytes, {} requested (exact): returned {:?}", if unlimited { "any number of".to_string() } else { room.to_string() }, count, res)));
                        } else if !exact && res != Ok(Some(want1)) && !(level == 2 && want1 < count.min(avail) && res.is_err()) {
                            // (guest memory drains each region with the all-or-error form, so a sink
                            // that cannot take a region's part reports the sink's refusal)
                            bad = Some(("result", format!("up to {} requested, {} fit: returned {:?}", count, want1, res)));
                        } else if res2 != Ok(Some(want2)) && !(level == 2 && want2 < 3 && res2.is_err()) {
                            bad = Some(("second-transfer", format!("a second drain of up to 3 bytes into a sink with room for {} more returned {:?}", cap - want1.min(cap), res2)));
                        }
                        if let Some((k, d)) = bad {
                            let lv = ["slice", "region", "guest memory"][level];
                            let wk = ["&mut [u8]", "Cursor<&mut [u8]>", "Vec<u8>"][kind];
                            let key = format!("C14/host-buffer-writer/{}/{}/{}/{}", lv, wk, if exact { "write_all_volatile_to" } else { "write_volatile_to" }, k);
                            let rp = if ctx.has_failed(&key) { Value::Null } else { json!({"level": lv, "writer": wk, "room": room, "already_used": start, "offset": off, "count": count, "exact": exact}) };
                            ctx.fail(&key, &format!("offset {} count {} room {} (sink position {}): {}", off, count, room, start, d), rp);
                        }
                    }
                }
            }
        }
    }
    // guest memory is only read here
    let after: Vec<u8> = unsafe { std::slice::from_raw_parts(region.as_ptr(), CELLS) }.to_vec();
    if after != fill {
        ctx.fail("C14/host-buffer-writer/guest-memory-changed", "draining guest memory changed it", Value::Null);
    }
    t
}

pub fn run(tier: Tier, replay: Option<String>) -> i32 {
    let ctx = crate::new_ctx("C14", tier, "fault_enumeration", &replay);
    ctx.set_rule("choice-tree DFS: every call the transfer makes to the underlying stream is a choice among full / short by k / zero / EINTR (<=3 in a row) / hard error of four kinds (other, WouldBlock, BrokenPipe, TimedOut); scripts of up to max_calls scripted calls, at most `bound` non-default answers per script (all bounds 0..=B enumerated completely); streams: a scripted ReadVolatile/WriteVolatile and the real File adapter over interposed read(2)/write(2); targets: slice, region, guest memory with two adjacent regions, a hole and a third region behind it (ranges may end in the hole or behind it); a case is non-trivial when its script contains at least one non-default answer; distinct = distinct (case, script) pairs, by construction of the DFS; plus, for every case, runs of 4, 33, 64 and 1000 EINTR answers in a row (alone and after a one-byte transfer) followed by default answers; plus host byte buffers as readers (&[u8], Cursor<&[u8]>, Cursor<Vec<u8>>) holding fewer, as many or more bytes than asked, both read forms at three levels, followed by a second transfer from the same reader (what left the reader is in guest memory, in order); plus host byte buffers as writers (&mut [u8], Cursor<&mut [u8]>, Vec<u8>) with room for fewer, as many or more bytes than the drain asks for, at sink positions 0 and 2, both write forms at three levels, followed by a second drain into the same sink (what the sink reports as accepted is the next guest bytes in order, the rest of the sink is untouched); plus transfers of 1 MiB+2 .. 3 MiB+4101 bytes in one call at slice, region and two-region guest-memory level, all four forms, with short calls of 1, 2^20-1, 2^20, 2^20+1 and 2^21+5 bytes and with streams capped at 700001 bytes per call, and with the first, second, third or fourth stream call failing (the error surfaces, what arrived before it is in place)");
    ctx.assume("the scripted stream and the interposed syscalls deliver exactly what the script says");
    if let Err(e) = crate::interpose::selftest() {
        ctx.machinery(&format!("interposition self-test failed: {}", e));
        return ctx.finish();
    }
    let (max_calls, max_bound, all_shorts) = if tier.thorough() { (10, 7, true) } else { (6, 4, true) };
    if let Some(r) = ctx.replay_of.clone() {
        let c = &r["case"];
        let case = match Case::from_json(&c["case"]) {
            Some(c) => c,
            None => {
                eprintln!("MACHINERY: bad replay file");
                return 2;
            }
        };
        let choices: Vec<u32> = c["choices"].as_array().map(|a| a.iter().filter_map(|x| x.as_u64().map(|x| x as u32)).collect()).unwrap_or_default();
        let mc = c["max_calls"].as_u64().unwrap_or(5) as usize;
        let shorts = c["all_shorts"].as_bool().unwrap_or(true);
        let mut ex = Explorer::for_replay(&choices);
        ex.begin();
        let e = execute(&case, &mut ex, mc, shorts);
        println!("replayed script {:?} -> {:?}, memory {}", e.calls, e.result, hex(&e.after));
        if let Some((k, d)) = e.violation {
            ctx.fail(&format!("C14/{:?}/{:?}/{}/{}", case.target, case.stream, case.form.name(), k), &d, c.clone());
        }
        return ctx.finish();
    }
    let all = cases(tier);
    let mut outcomes: BTreeSet<String> = BTreeSet::new();
    let mut scripts_total = 0u64;
    let mut per_bound = vec![0u64; max_bound as usize + 1];
    for case in &all {
        let mut found = false;
        for bound in 0..=max_bound {
            let stats = explore_seq(Some(bound), |ex| {
                let e = execute(case, ex, max_calls, all_shorts);
                let deviations = e.calls.iter().filter(|c| c.1 != Ans::Full).count() as u32;
                // count each script once: at the bound equal to its number of deviations
                if deviations == bound {
                    ctx.case(deviations > 0);
                    outcomes.insert(format!("{:?}", e.result));
                    if ctx.sample_n() < 10 && (deviations == 2 || (bound == 0 && ctx.sample_n() < 2)) {
                        ctx.sample(json!({"case": case.to_json(), "script": format!("{:?}", e.calls), "result": format!("{:?}", e.result), "memory_after": hex(&e.after)}));
                    }
                }
                if let Some((k, d)) = e.violation {
                    let key = format!("C14/{:?}/{:?}/{}/{}", case.target, case.stream, case.form.name(), k);
                    if !ctx.has_failed(&key) {
                        ctx.fail(&key, &d, json!({"case": case.to_json(), "choices": ex.current_choices(), "script": format!("{:?}", e.calls), "result": format!("{:?}", e.result), "max_calls": max_calls, "all_shorts": all_shorts}));
                    } else {
                        ctx.fail(&key, &d, Value::Null);
                    }
                    found = true;
                    return false;
                }
                true
            });
            if let Some(d) = stats.diverged {
                ctx.machinery(&format!("divergence in {:?}: {}", case, d));
            }
            scripts_total += stats.executions;
            per_bound[bound as usize] += stats.executions;
            if found {
                break;
            }
        }
    }
    // histories: two transfers in a row on the same target and stream (state carried over)
    let mut pair_scripts = 0u64;
    for target in [TargetKind::Slice, TargetKind::Region, TargetKind::Memory] {
        for stream in [StreamKind::Scripted, StreamKind::File] {
            for (f1, f2) in [(Form::ReadUpTo, Form::ReadExact), (Form::ReadExact, Form::ReadUpTo), (Form::WriteUpTo, Form::WriteAll), (Form::ReadUpTo, Form::WriteAll), (Form::TraitReadExact, Form::ReadExact), (Form::WriteAll, Form::ReadUpTo)] {
                for (o1, c1, o2, c2) in [(0usize, 5usize, 5usize, 8usize), (3, 8, 0, 5), (6, 5, 2, 9)] {
                    let pair = [Case { target, stream, form: f1, off: o1, count: c1 }, Case { target, stream, form: f2, off: o2, count: c2 }];
                    let stats = explore_seq(Some(2), |ex| {
                        let e = execute_seq(&pair, ex, max_calls, false);
                        ctx.case(true);
                        if let Some((k, d)) = e.violation {
                            let key = format!("C14/{:?}/{:?}/history-{}-then-{}/{}", target, stream, f1.name(), f2.name(), k);
                            ctx.fail(&key, &d, json!({"history": [pair[0].to_json(), pair[1].to_json()], "choices": ex.current_choices(), "max_calls": max_calls}));
                            return false;
                        }
                        true
                    });
                    pair_scripts += stats.executions;
                }
            }
        }
    }
    ctx.extra("two_transfer_history_scripts", json!(pair_scripts));
    // long runs of EINTR (far beyond the three in a row of the choice tree), alone and after a
    // short transfer: an interruption is retried however often it happens
    let mut long_runs = 0u64;
    for case in &all {
        for n in [4usize, 33, 64, 1000] {
            for lead in [None, Some(Ans::Short(1))] {
                let mut prefix: Vec<Ans> = lead.into_iter().collect();
                prefix.extend(std::iter::repeat(Ans::Eintr).take(n));
                long_runs += 1;
                ctx.case(true);
                let e = execute_forced(case, prefix);
                if let Some((k, d)) = e.violation {
                    let key = format!("C14/{:?}/{:?}/{}/{} (after {} interruptions in a row)", case.target, case.stream, case.form.name(), k, if n > 4 { "many" } else { "four" });
                    let rp = if ctx.has_failed(&key) { Value::Null } else { json!({"case": case.to_json(), "eintr_run": n, "short_first": lead.is_some(), "result": format!("{:?}", e.result)}) };
                    ctx.fail(&key, &format!("{} x EINTR{}: {}", n, if lead.is_some() { " after a short transfer of 1 byte" } else { "" }, d), rp);
                }
            }
        }
    }
    ctx.extra("long_eintr_run_scripts", json!(long_runs));
    let hb = host_buffer_readers(&ctx);
    ctx.extra("host_buffer_reader_cases", json!(hb));
    let hw = host_buffer_writers(&ctx);
    ctx.extra("host_buffer_writer_cases", json!(hw));
    let lt = large_transfers(&ctx, tier.thorough());
    ctx.extra("large_transfer_scripts", json!(lt));
    ctx.set_exhaustive(true);
    ctx.extra("cases", json!(all.len()));
    ctx.extra("scripts_executed_including_re-exploration_per_bound", json!(per_bound));
    ctx.extra("executions_total", json!(scripts_total));
    ctx.extra("deviation_bound_completed", json!(max_bound));
    ctx.extra("max_scripted_calls", json!(max_calls));
    ctx.extra("short_amounts", json!(if all_shorts { "every k in 1..len" } else { "k in {1, len/2, len-1}" }));
    ctx.extra("distinct_results", json!(outcomes.len()));
    ctx.finish()
}
