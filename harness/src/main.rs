//! vmcheck: bounded exhaustive exploration of rust-vmm/vm-memory against reference models.
//! Usage: vmcheck <property-id> [--tier quick|thorough] [--replay <file>] [--part <name>]

mod arena;
mod crash;
mod explore;
mod interpose;
mod layouts;
mod report;
mod sched;
#[cfg(feature = "xen")]
mod xen_emu;
mod props;

use report::{Ctx, Tier};

fn main() {
    let args: Vec<String> = std::env::args().collect();
    if args.len() < 2 {
        eprintln!("usage: vmcheck <property-id> [--tier quick|thorough] [--replay file]");
        std::process::exit(2);
    }
    let prop = args[1].clone();
    let mut tier = match std::env::var("VERIF_TIER").as_deref() {
        Ok("thorough") => Tier::Thorough,
        _ => Tier::Quick,
    };
    let mut replay: Option<String> = None;
    let mut i = 2;
    while i < args.len() {
        match args[i].as_str() {
            "--tier" => {
                i += 1;
                tier = match args.get(i).map(|s| s.as_str()) {
                    Some("quick") => Tier::Quick,
                    Some("thorough") => Tier::Thorough,
                    other => {
                        eprintln!("bad tier {:?}", other);
                        std::process::exit(2);
                    }
                };
            }
            "--replay" => {
                i += 1;
                replay = args.get(i).cloned();
            }
            other => {
                eprintln!("unknown argument {}", other);
                std::process::exit(2);
            }
        }
        i += 1;
    }
    let code = match std::panic::catch_unwind(|| props::dispatch(&prop, tier, replay)) {
        Ok(c) => c,
        Err(_) => {
            let c = crash::escaped_panic();
            if c == 2 {
                eprintln!("MACHINERY: the harness panicked");
            }
            c
        }
    };
    std::process::exit(code);
}

#[allow(dead_code)]
pub fn new_ctx(prop: &str, tier: Tier, level: &'static str, replay: &Option<String>) -> Ctx {
    let mut ctx = Ctx::new(prop, tier, level);
    if let Some(p) = replay {
        match std::fs::read_to_string(p)
            .ok()
            .and_then(|s| serde_json::from_str::<serde_json::Value>(&s).ok())
        {
            Some(v) => ctx.replay_of = Some(v),
            None => {
                eprintln!("MACHINERY: cannot read replay file {}", p);
                std::process::exit(2);
            }
        }
    }
    crash::install(&ctx);
    ctx
}
