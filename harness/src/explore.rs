//! E2: stateless choice-tree exploration with a deviation bound (CHESS style).
//!
//! The body under exploration calls `Explorer::choose(n, costs)` wherever the environment or the
//! scheduler has a choice. Alternative 0 is the default (cost 0); the sum of the costs of the
//! chosen alternatives along one execution is bounded by `bound` (None = unbounded). The tree is
//! enumerated depth first by re-execution: the recorded prefix is replayed, afterwards the
//! default alternative is taken. A different number of alternatives while replaying a prefix is
//! a divergence (uncontrolled nondeterminism) and is a hard machinery error.
//!
//! `explore_parallel` distributes disjoint subtrees over worker threads: siblings of choice
//! points above `split_depth` are handed to a shared work queue instead of being explored by
//! the task that discovered them, so every leaf is visited by exactly one task.

use std::collections::VecDeque;
use std::sync::atomic::{AtomicBool, AtomicU64, Ordering};
use std::sync::{Condvar, Mutex};

#[derive(Clone, Debug)]
pub struct Point {
    pub n: u32,
    pub chosen: u32,
    pub costs: Vec<u32>,
    pub cum_before: u32,
}

#[derive(Clone, Debug, Default)]
pub struct Task {
    /// (chosen, n) for every point of the prefix
    pub prefix: Vec<(u32, u32)>,
}

pub struct Explorer {
    pub bound: Option<u32>,
    path: Vec<Point>,
    pos: usize,
    replay_len: usize,
    floor: usize,
    split_depth: usize,
    prefix: Vec<(u32, u32)>,
    pub executions: u64,
    pub nodes: u64,
    pub max_depth: usize,
    pub diverged: Option<String>,
    spawned: Vec<Task>,
    started: bool,
}

impl Explorer {
    pub fn new(bound: Option<u32>) -> Explorer {
        Explorer::for_task(bound, Task::default(), 0)
    }

    pub fn for_task(bound: Option<u32>, task: Task, split_depth: usize) -> Explorer {
        Explorer {
            bound,
            path: Vec::new(),
            pos: 0,
            replay_len: task.prefix.len().saturating_sub(1),
            floor: task.prefix.len(),
            split_depth,
            prefix: task.prefix,
            executions: 0,
            nodes: 0,
            max_depth: 0,
            diverged: None,
            spawned: Vec::new(),
            started: false,
        }
    }

    /// Replays exactly one recorded schedule (list of choices); later points take the default.
    pub fn for_replay(choices: &[u32]) -> Explorer {
        let mut e = Explorer::new(None);
        e.prefix = choices.iter().map(|c| (*c, u32::MAX)).collect();
        e.floor = e.prefix.len();
        e
    }

    pub fn begin(&mut self) {
        self.pos = 0;
        self.started = true;
    }

    pub fn cost_so_far(&self) -> u32 {
        if self.pos == 0 {
            0
        } else {
            let p = &self.path[self.pos - 1];
            p.cum_before + p.costs[p.chosen as usize]
        }
    }

    /// Returns the index of the alternative to take at this choice point.
    pub fn choose(&mut self, n: usize, costs: &[u32]) -> usize {
        assert!(n >= 1 && costs.len() == n);
        debug_assert_eq!(costs[0], 0, "the default alternative must have cost 0");
        let i = self.pos;
        self.pos += 1;
        if i < self.path.len() {
            // replaying our own recorded path
            let p = &self.path[i];
            if p.n as usize != n {
                self.diverged = Some(format!(
                    "choice point {} had {} alternatives, now {}",
                    i, p.n, n
                ));
                return 0;
            }
            return p.chosen as usize;
        }
        let cum_before = if i == 0 {
            0
        } else {
            let p = &self.path[i - 1];
            p.cum_before + p.costs[p.chosen as usize]
        };
        let chosen = if i < self.prefix.len() {
            let (c, pn) = self.prefix[i];
            if pn != u32::MAX && pn as usize != n {
                self.diverged = Some(format!(
                    "prefix point {} had {} alternatives, now {}",
                    i, pn, n
                ));
                0
            } else if c as usize >= n {
                self.diverged = Some(format!("prefix point {} choice {} out of range {}", i, c, n));
                0
            } else {
                c
            }
        } else {
            0
        };
        self.path.push(Point {
            n: n as u32,
            chosen,
            costs: costs.to_vec(),
            cum_before,
        });
        chosen as usize
    }

    pub fn current_choices(&self) -> Vec<u32> {
        self.path[..self.pos.min(self.path.len())]
            .iter()
            .map(|p| p.chosen)
            .collect()
    }

    pub fn current_prefix(&self) -> Vec<(u32, u32)> {
        self.path.iter().map(|p| (p.chosen, p.n)).collect()
    }

    /// Ends one execution; returns true if another execution has to be run.
    pub fn end(&mut self) -> bool {
        self.executions += 1;
        // an execution may stop early; drop unreplayed tail
        self.path.truncate(self.pos);
        if self.path.len() > self.replay_len {
            self.nodes += (self.path.len() - self.replay_len) as u64;
        }
        self.max_depth = self.max_depth.max(self.path.len());
        if self.diverged.is_some() {
            return false;
        }
        loop {
            let idx = match self.path.len() {
                0 => return false,
                l => l - 1,
            };
            if idx < self.floor {
                return false;
            }
            let last = &self.path[idx];
            let admissible = |alt: u32| match self.bound {
                None => true,
                Some(b) => last.cum_before + last.costs[alt as usize] <= b,
            };
            if idx < self.split_depth {
                // delegate all siblings to the work queue
                for alt in (last.chosen + 1)..last.n {
                    if admissible(alt) {
                        let mut prefix: Vec<(u32, u32)> =
                            self.path[..idx].iter().map(|p| (p.chosen, p.n)).collect();
                        prefix.push((alt, last.n));
                        self.spawned.push(Task { prefix });
                    }
                }
                self.path.pop();
                continue;
            }
            let mut alt = last.chosen + 1;
            while alt < last.n && !admissible(alt) {
                alt += 1;
            }
            if alt < last.n {
                self.path[idx].chosen = alt;
                self.replay_len = self.path.len();
                return true;
            }
            self.path.pop();
        }
    }

    pub fn take_spawned(&mut self) -> Vec<Task> {
        std::mem::take(&mut self.spawned)
    }
}

use crate::report::BUDGET_HIT;

/// Executions one exploration may run (a change to the code under test can multiply the steps
/// of an operation and with it the number of schedules). Hitting it is reported as a coverage
/// limit, never as a verdict.
pub fn execution_budget() -> u64 {
    static B: std::sync::OnceLock<u64> = std::sync::OnceLock::new();
    *B.get_or_init(|| {
        std::env::var("VERIF_EXEC_BUDGET").ok().and_then(|v| v.parse().ok()).unwrap_or_else(|| {
            if std::env::var("VERIF_TIER").map_or(false, |t| t == "thorough") {
                50_000_000
            } else {
                2_000_000
            }
        })
    })
}

fn note_budget_hit(n: u64) {
    if !BUDGET_HIT.swap(true, Ordering::SeqCst) {
        println!("NOTE: an exploration stopped at its budget of {} executions (coverage below the stated bound; see evidence)", n);
    }
}

#[derive(Default, Debug, Clone)]
pub struct ExploreStats {
    pub executions: u64,
    pub nodes: u64,
    pub max_depth: usize,
    pub tasks: u64,
    pub diverged: Option<String>,
    pub stopped_early: bool,
}

/// Explores the whole tree of `body` sequentially.
pub fn explore_seq(bound: Option<u32>, mut body: impl FnMut(&mut Explorer) -> bool) -> ExploreStats {
    let mut ex = Explorer::new(bound);
    let mut stopped = false;
    let budget = execution_budget();
    loop {
        ex.begin();
        let cont = body(&mut ex);
        let more = ex.end();
        if !cont {
            stopped = more;
            break;
        }
        if !more {
            break;
        }
        if ex.executions >= budget {
            note_budget_hit(budget);
            stopped = true;
            break;
        }
    }
    ExploreStats {
        executions: ex.executions,
        nodes: ex.nodes,
        max_depth: ex.max_depth,
        tasks: 1,
        diverged: ex.diverged.clone(),
        stopped_early: stopped,
    }
}

/// Explores the tree with `workers` threads. `body` runs one execution and returns false to
/// stop the whole exploration early (e.g. after the first violation of a harness).
pub fn explore_parallel(
    bound: Option<u32>,
    split_depth: usize,
    workers: usize,
    body: &(dyn Fn(&mut Explorer) -> bool + Sync),
) -> ExploreStats {
    if workers <= 1 || split_depth == 0 {
        return explore_seq(bound, |e| body(e));
    }
    struct Q {
        tasks: VecDeque<Task>,
        active: usize,
    }
    let q = Mutex::new(Q {
        tasks: VecDeque::from(vec![Task::default()]),
        active: 0,
    });
    let cv = Condvar::new();
    let stop = AtomicBool::new(false);
    let executions = AtomicU64::new(0);
    let running = AtomicU64::new(0);
    let nodes = AtomicU64::new(0);
    let ntasks = AtomicU64::new(0);
    let max_depth = AtomicU64::new(0);
    let diverged: Mutex<Option<String>> = Mutex::new(None);
    std::thread::scope(|s| {
        for _ in 0..workers {
            s.spawn(|| loop {
                let task = {
                    let mut g = q.lock().unwrap();
                    loop {
                        if stop.load(Ordering::Relaxed) {
                            return;
                        }
                        if let Some(t) = g.tasks.pop_front() {
                            g.active += 1;
                            break t;
                        }
                        if g.active == 0 {
                            cv.notify_all();
                            return;
                        }
                        g = cv.wait(g).unwrap();
                    }
                };
                ntasks.fetch_add(1, Ordering::Relaxed);
                let mut ex = Explorer::for_task(bound, task, split_depth);
                loop {
                    if stop.load(Ordering::Relaxed) {
                        break;
                    }
                    ex.begin();
                    let cont = body(&mut ex);
                    let more = ex.end();
                    let sp = ex.take_spawned();
                    if !sp.is_empty() {
                        let mut g = q.lock().unwrap();
                        g.tasks.extend(sp);
                        cv.notify_all();
                    }
                    if !cont {
                        stop.store(true, Ordering::Relaxed);
                        break;
                    }
                    if !more {
                        break;
                    }
                    if running.fetch_add(1, Ordering::Relaxed) >= execution_budget() {
                        note_budget_hit(execution_budget());
                        stop.store(true, Ordering::Relaxed);
                        break;
                    }
                }
                executions.fetch_add(ex.executions, Ordering::Relaxed);
                nodes.fetch_add(ex.nodes, Ordering::Relaxed);
                max_depth.fetch_max(ex.max_depth as u64, Ordering::Relaxed);
                if let Some(d) = ex.diverged.clone() {
                    *diverged.lock().unwrap() = Some(d);
                    stop.store(true, Ordering::Relaxed);
                }
                let mut g = q.lock().unwrap();
                g.active -= 1;
                cv.notify_all();
            });
        }
    });
    let d = diverged.lock().unwrap().clone();
    ExploreStats {
        executions: executions.load(Ordering::Relaxed),
        nodes: nodes.load(Ordering::Relaxed),
        max_depth: max_depth.load(Ordering::Relaxed) as usize,
        tasks: ntasks.load(Ordering::Relaxed),
        diverged: d,
        stopped_early: stop.load(Ordering::Relaxed),
    }
}
