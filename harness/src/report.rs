//! Evidence, findings, replay files and known-findings plumbing shared by all checks.

use serde_json::{json, Map, Value};
use std::collections::{BTreeMap, HashSet};
use std::path::PathBuf;
use std::sync::atomic::{AtomicU64, Ordering};
use std::sync::Mutex;
use std::time::Instant;

#[derive(Clone, Copy, PartialEq, Eq, Debug)]
pub enum Tier {
    Quick,
    Thorough,
}

impl Tier {
    pub fn name(self) -> &'static str {
        match self {
            Tier::Quick => "quick",
            Tier::Thorough => "thorough",
        }
    }
    pub fn thorough(self) -> bool {
        self == Tier::Thorough
    }
}

#[derive(Clone, Debug)]
pub struct Finding {
    pub key: String,
    pub detail: String,
    pub replay: Value,
    pub count: u64,
}

/// Set when any exploration of this process stopped at its execution budget (see explore.rs).
pub static BUDGET_HIT: std::sync::atomic::AtomicBool = std::sync::atomic::AtomicBool::new(false);

pub struct Ctx {
    pub prop: String,
    pub tier: Tier,
    pub seed: u64,
    pub level: &'static str,
    pub verif_dir: PathBuf,
    t0: Instant,
    pub evaluations: AtomicU64,
    pub nontrivial: AtomicU64,
    distinct: Mutex<HashSet<u64>>,
    pub states: AtomicU64,
    pub transitions: AtomicU64,
    pub traces: AtomicU64,
    samples: Mutex<Vec<Value>>,
    findings: Mutex<BTreeMap<String, Finding>>,
    extra: Mutex<Map<String, Value>>,
    assumptions: Mutex<Vec<String>>,
    rule: Mutex<String>,
    exhaustive: Mutex<Option<bool>>,
    machinery_errors: Mutex<Vec<String>>,
    /// when replaying, only this key is of interest
    pub replay_of: Option<Value>,
}

pub fn fnv(bytes: &[u8]) -> u64 {
    let mut h: u64 = 0xcbf29ce484222325;
    for b in bytes {
        h ^= *b as u64;
        h = h.wrapping_mul(0x100000001b3);
    }
    h
}

impl Ctx {
    pub fn new(prop: &str, tier: Tier, level: &'static str) -> Ctx {
        let seed = std::env::var("VERIF_SEED")
            .ok()
            .and_then(|s| s.parse::<u64>().ok())
            .unwrap_or(0);
        let verif_dir = std::env::var("VERIF_DIR")
            .map(PathBuf::from)
            .unwrap_or_else(|_| PathBuf::from("/verif"));
        Ctx {
            prop: prop.to_string(),
            tier,
            seed,
            level,
            verif_dir,
            t0: Instant::now(),
            evaluations: AtomicU64::new(0),
            nontrivial: AtomicU64::new(0),
            distinct: Mutex::new(HashSet::new()),
            states: AtomicU64::new(0),
            transitions: AtomicU64::new(0),
            traces: AtomicU64::new(0),
            samples: Mutex::new(Vec::new()),
            findings: Mutex::new(BTreeMap::new()),
            extra: Mutex::new(Map::new()),
            assumptions: Mutex::new(Vec::new()),
            rule: Mutex::new(String::new()),
            exhaustive: Mutex::new(None),
            machinery_errors: Mutex::new(Vec::new()),
            replay_of: None,
        }
    }

    pub fn thorough(&self) -> bool {
        self.tier.thorough()
    }

    pub fn elapsed(&self) -> f64 {
        self.t0.elapsed().as_secs_f64()
    }

    /// One case evaluated (distinct by construction of the enumeration).
    #[inline]
    pub fn case(&self, nontrivial: bool) {
        self.evaluations.fetch_add(1, Ordering::Relaxed);
        if nontrivial {
            self.nontrivial.fetch_add(1, Ordering::Relaxed);
        }
    }

    /// One case evaluated whose descriptor hash is remembered, so that `distinct_nontrivial`
    /// is measured and not inferred. Use for spaces up to a few million cases.
    pub fn case_hashed(&self, descriptor: &[u8], nontrivial: bool) {
        self.evaluations.fetch_add(1, Ordering::Relaxed);
        if nontrivial && self.distinct.lock().unwrap().insert(fnv(descriptor)) {
            self.nontrivial.fetch_add(1, Ordering::Relaxed);
        }
    }

    pub fn add_states(&self, n: u64) {
        self.states.fetch_add(n, Ordering::Relaxed);
    }
    pub fn add_transitions(&self, n: u64) {
        self.transitions.fetch_add(n, Ordering::Relaxed);
    }
    pub fn add_traces(&self, n: u64) {
        self.traces.fetch_add(n, Ordering::Relaxed);
    }

    pub fn sample(&self, v: Value) {
        let mut s = self.samples.lock().unwrap();
        if s.len() < 12 {
            s.push(v);
        }
    }

    pub fn sample_n(&self) -> usize {
        self.samples.lock().unwrap().len()
    }

    pub fn set_rule(&self, r: &str) {
        *self.rule.lock().unwrap() = r.to_string();
    }

    pub fn set_exhaustive(&self, e: bool) {
        let mut g = self.exhaustive.lock().unwrap();
        *g = Some(g.unwrap_or(true) && e);
    }

    pub fn assume(&self, a: &str) {
        let mut g = self.assumptions.lock().unwrap();
        if !g.iter().any(|x| x == a) {
            g.push(a.to_string());
        }
    }

    pub fn extra(&self, k: &str, v: Value) {
        self.extra.lock().unwrap().insert(k.to_string(), v);
    }

    pub fn extra_add(&self, k: &str, n: u64) {
        let mut g = self.extra.lock().unwrap();
        let cur = g.get(k).and_then(|v| v.as_u64()).unwrap_or(0);
        g.insert(k.to_string(), json!(cur + n));
    }

    /// A violation of the property. `key` is stable and names call site + input class.
    pub fn fail(&self, key: &str, detail: &str, replay: Value) {
        let mut g = self.findings.lock().unwrap();
        match g.get_mut(key) {
            Some(f) => f.count += 1,
            None => {
                g.insert(
                    key.to_string(),
                    Finding {
                        key: key.to_string(),
                        detail: detail.to_string(),
                        replay,
                        count: 1,
                    },
                );
            }
        }
    }

    pub fn has_failed(&self, key: &str) -> bool {
        self.findings.lock().unwrap().contains_key(key)
    }

    pub fn n_findings(&self) -> usize {
        self.findings.lock().unwrap().len()
    }

    /// Something went wrong with the machinery itself (never a verdict).
    pub fn machinery(&self, msg: &str) {
        self.machinery_errors.lock().unwrap().push(msg.to_string());
    }

    fn known_findings(&self) -> Vec<(String, String, String)> {
        // (status, key, what)
        let p = self.verif_dir.join("known_findings.json");
        let mut out = Vec::new();
        if let Ok(s) = std::fs::read_to_string(&p) {
            if let Ok(v) = serde_json::from_str::<Value>(&s) {
                if let Some(arr) = v.get("findings").and_then(|a| a.as_array()) {
                    for e in arr {
                        if e.get("property").and_then(|p| p.as_str()) != Some(&self.prop) {
                            continue;
                        }
                        let status = e.get("status").and_then(|x| x.as_str()).unwrap_or("");
                        let key = e.get("key").and_then(|x| x.as_str()).unwrap_or("");
                        let what = e.get("what").and_then(|x| x.as_str()).unwrap_or("");
                        out.push((status.to_string(), key.to_string(), what.to_string()));
                    }
                }
            }
        }
        out
    }

    /// Writes the evidence file, prints the verdict lines and returns the process exit code.
    pub fn finish(&self) -> i32 {
        let wall = self.elapsed();
        let known = self.known_findings();
        let findings = self.findings.lock().unwrap().clone();
        let mut violations: Vec<&Finding> = Vec::new();
        let mut known_hit: Vec<(&Finding, String)> = Vec::new();
        for f in findings.values() {
            match known
                .iter()
                .find(|(st, k, _)| st == "known" && key_matches(k, &f.key))
            {
                Some((_, _, what)) => known_hit.push((f, what.clone())),
                None => violations.push(f),
            }
        }
        let out_dir = std::env::var("VERIF_OUT")
            .map(PathBuf::from)
            .unwrap_or_else(|_| self.verif_dir.clone());
        let build = std::env::var("VERIF_BUILD").unwrap_or_else(|_| "std-dev".into());
        let replay_dir = out_dir.join("replays");
        let _ = std::fs::create_dir_all(&replay_dir);
        let mut out_lines = Vec::new();
        let write_replay = |f: &Finding| -> PathBuf {
            let name = format!("{}-{:016x}.json", self.prop, fnv(f.key.as_bytes()));
            let path = replay_dir.join(name);
            let body = json!({
                "property": self.prop,
                "key": f.key,
                "detail": f.detail,
                "occurrences": f.count,
                "tier": self.tier.name(),
                "build": build,
                "case": f.replay,
            });
            let _ = std::fs::write(&path, serde_json::to_string_pretty(&body).unwrap());
            path
        };
        for (f, what) in &known_hit {
            let path = write_replay(f);
            out_lines.push(format!(
                "KNOWN-FINDING: property={} key={} {} (occurrences={}, replay={})",
                self.prop,
                f.key,
                what,
                f.count,
                path.display()
            ));
        }
        for f in violations.iter().take(40) {
            let path = write_replay(f);
            out_lines.push(format!("  key={} detail={}", f.key, f.detail));
            out_lines.push(format!(
                "VIOLATION property={} replay={}",
                self.prop,
                path.display()
            ));
        }
        if violations.len() > 40 {
            out_lines.push(format!(
                "  ... and {} more distinct violation keys",
                violations.len() - 40
            ));
        }

        let merr = self.machinery_errors.lock().unwrap().clone();

        // evidence
        let mut cov = Map::new();
        let evals = self.evaluations.load(Ordering::Relaxed);
        let nontriv = self.nontrivial.load(Ordering::Relaxed);
        let states = self.states.load(Ordering::Relaxed);
        let trans = self.transitions.load(Ordering::Relaxed);
        let traces = self.traces.load(Ordering::Relaxed);
        if evals > 0 || self.level != "model_checking" {
            cov.insert("evaluations".into(), json!(evals));
            cov.insert("distinct_nontrivial".into(), json!(nontriv));
        }
        cov.insert("rule".into(), json!(*self.rule.lock().unwrap()));
        if states > 0 || self.level == "model_checking" {
            cov.insert("states".into(), json!(states));
            cov.insert("transitions".into(), json!(trans));
            cov.insert("traces_validated_against_impl".into(), json!(traces));
        }
        cov.insert("samples".into(), Value::Array(self.samples.lock().unwrap().clone()));
        let budget_hit = BUDGET_HIT.load(Ordering::SeqCst);
        if budget_hit {
            cov.insert("exploration_budget_hit".into(), json!(true));
        }
        if let Some(e) = *self.exhaustive.lock().unwrap() {
            cov.insert("exhaustive".into(), json!(e && !budget_hit));
        }
        for (k, v) in self.extra.lock().unwrap().iter() {
            cov.insert(k.clone(), v.clone());
        }
        cov.insert(
            "known_findings_hit".into(),
            json!(known_hit.iter().map(|(f, _)| f.key.clone()).collect::<Vec<_>>()),
        );
        cov.insert(
            "violation_keys".into(),
            json!(violations.iter().map(|f| f.key.clone()).collect::<Vec<_>>()),
        );
        if !merr.is_empty() {
            cov.insert("machinery_errors".into(), json!(merr));
        }
        let ev = json!({
            "property_id": self.prop,
            "tier": self.tier.name(),
            "seed": self.seed,
            "level": self.level,
            "coverage": Value::Object(cov),
            "assumptions": *self.assumptions.lock().unwrap(),
            "wall_s": (wall * 1000.0).round() / 1000.0,
            "violations": violations.len(),
            "_part": build,
        });
        if self.replay_of.is_none() {
            let evdir = out_dir.join("evidence");
            let _ = std::fs::create_dir_all(&evdir);
            let evpath = match std::env::var("VERIF_EVIDENCE_PATH") {
                Ok(p) => PathBuf::from(p),
                Err(_) => evdir.join(format!("{}.json", self.prop)),
            };
            if let Err(e) = std::fs::write(&evpath, serde_json::to_string_pretty(&ev).unwrap() + "\n")
            {
                eprintln!("MACHINERY: cannot write evidence {}: {}", evpath.display(), e);
                return 2;
            }
        }
        for l in out_lines {
            println!("{}", l);
        }
        println!(
            "SUMMARY property={} tier={} evaluations={} nontrivial={} states={} transitions={} traces={} violations={} known={} wall_s={:.1}",
            self.prop,
            self.tier.name(),
            evals,
            nontriv,
            states,
            trans,
            traces,
            violations.len(),
            known_hit.len(),
            wall
        );
        if !merr.is_empty() {
            for m in &merr {
                eprintln!("MACHINERY: {}", m);
            }
            // a violation that was found (and has its replay file) stays a verdict even when
            // the machinery gave up on something else afterwards; without one the run is void
            if violations.is_empty() {
                return 2;
            }
        }
        if violations.is_empty() {
            0
        } else {
            1
        }
    }
}

/// `pattern` is an exact key, or a prefix ending in `*`.
pub fn key_matches(pattern: &str, key: &str) -> bool {
    if let Some(p) = pattern.strip_suffix('*') {
        key.starts_with(p)
    } else {
        pattern == key
    }
}

/// Hex helper for replay files.
pub fn hex(b: &[u8]) -> String {
    b.iter().map(|x| format!("{:02x}", x)).collect()
}
