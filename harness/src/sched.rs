//! E3: controlled scheduler on top of the choice-tree explorer.
//!
//! Harness threads are real OS threads that run one at a time. Every hooked operation of the
//! code under test (feature `verif-hooks`) reports to the thread-local observer *before* it is
//! executed; the observer parks the thread, and the controller asks the explorer which enabled
//! thread runs next. A thread that wants a mutex which the scheduler knows to be held is not
//! enabled. No enabled thread while some are unfinished = deadlock; a step horizon catches
//! livelock. Interleavings explored are sequentially consistent interleavings of whole hooked
//! operations.

use crate::explore::Explorer;
use std::cell::RefCell;
use std::collections::HashMap;
use std::panic::{catch_unwind, AssertUnwindSafe};
use std::rc::Rc;
use std::sync::{Arc, Condvar, Mutex};
use vm_memory::verif_hooks::{self, AtomicOp, Event};

#[derive(Clone, Copy, Debug, PartialEq, Eq)]
pub enum Ev {
    Start,
    Hook(Event),
    /// explicit scheduling point inserted by the harness (not a crate operation)
    Harness(&'static str),
}

#[derive(Clone, Copy, PartialEq, Eq, Debug)]
enum Status {
    Starting,
    Parked,
    Running,
    Finished,
}

struct St {
    status: Vec<Status>,
    pending: Vec<Option<Ev>>,
    go: Option<usize>,
    abort: bool,
    mutex_owner: HashMap<usize, usize>,
    panics: Vec<(usize, String)>,
}

pub struct Shared {
    m: Mutex<St>,
    cv: Condvar,
}

thread_local! {
    static CURRENT: RefCell<Option<(Arc<Shared>, usize)>> = const { RefCell::new(None) };
}

/// Explicit scheduling point for harness-level steps (no-op outside a scheduled thread).
pub fn step(label: &'static str) {
    let cur = CURRENT.with(|c| c.borrow().clone());
    if let Some((sh, tid)) = cur {
        sh.park(tid, Ev::Harness(label));
    }
}

impl Shared {
    fn park(&self, tid: usize, ev: Ev) {
        let mut st = self.m.lock().unwrap();
        if st.abort {
            return;
        }
        st.pending[tid] = Some(ev);
        st.status[tid] = Status::Parked;
        self.cv.notify_all();
        while st.go != Some(tid) && !st.abort {
            st = self.cv.wait(st).unwrap();
        }
        if st.go == Some(tid) {
            st.go = None;
        }
        st.status[tid] = Status::Running;
        st.pending[tid] = None;
        if let Ev::Hook(Event::LockWanted { obj }) = ev {
            if !st.abort {
                st.mutex_owner.insert(obj, tid);
            }
        }
    }

    fn on_event(&self, tid: usize, ev: &Event) {
        match ev {
            Event::Unlocked { obj } => {
                let mut st = self.m.lock().unwrap();
                st.mutex_owner.remove(obj);
            }
            Event::TryLock { obj } => {
                self.park(tid, Ev::Hook(*ev));
                let mut st = self.m.lock().unwrap();
                if !st.mutex_owner.contains_key(obj) {
                    st.mutex_owner.insert(*obj, tid);
                }
            }
            _ => self.park(tid, Ev::Hook(*ev)),
        }
    }
}

#[derive(Clone, Debug, Default)]
pub struct RunResult {
    /// (thread id, event it was resumed to perform)
    pub trace: Vec<(usize, Ev)>,
    pub deadlock: bool,
    pub horizon_hit: bool,
    pub panics: Vec<(usize, String)>,
    pub preemptions: u32,
}

impl RunResult {
    pub fn ok(&self) -> bool {
        !self.deadlock && !self.horizon_hit && self.panics.is_empty()
    }
    /// Trace with object addresses replaced by first-appearance indices (for determinism checks
    /// and replay files).
    pub fn normalized(&self) -> Vec<String> {
        let mut ids: HashMap<usize, usize> = HashMap::new();
        let mut id = |o: usize, ids: &mut HashMap<usize, usize>| -> usize {
            let n = ids.len();
            *ids.entry(o).or_insert(n)
        };
        self.trace
            .iter()
            .map(|(t, e)| match e {
                Ev::Start => format!("t{}:start", t),
                Ev::Harness(l) => format!("t{}:harness:{}", t, l),
                Ev::Hook(h) => match h {
                    Event::Atomic { obj, op } => {
                        format!("t{}:{}@a{}", t, op_name(*op), id(*obj, &mut ids))
                    }
                    Event::VolatileRead { size, .. } => format!("t{}:vread{}", t, size),
                    Event::VolatileWrite { size, .. } => format!("t{}:vwrite{}", t, size),
                    Event::SwapLoad { obj } => format!("t{}:swap-load@s{}", t, id(*obj, &mut ids)),
                    Event::SwapStore { obj } => {
                        format!("t{}:swap-store@s{}", t, id(*obj, &mut ids))
                    }
                    Event::LockWanted { obj } => format!("t{}:lock@m{}", t, id(*obj, &mut ids)),
                    Event::TryLock { obj } => format!("t{}:trylock@m{}", t, id(*obj, &mut ids)),
                    Event::Unlocking { obj } => format!("t{}:unlock@m{}", t, id(*obj, &mut ids)),
                    Event::Unlocked { obj } => format!("t{}:unlocked@m{}", t, id(*obj, &mut ids)),
                },
            })
            .collect()
    }
}

pub fn op_name(op: AtomicOp) -> &'static str {
    match op {
        AtomicOp::Load => "load",
        AtomicOp::Store => "store",
        AtomicOp::Swap => "swap",
        AtomicOp::FetchOr => "fetch_or",
        AtomicOp::FetchAnd => "fetch_and",
        AtomicOp::FetchXor => "fetch_xor",
        AtomicOp::FetchAdd => "fetch_add",
        AtomicOp::FetchSub => "fetch_sub",
        AtomicOp::FetchNand => "fetch_nand",
        AtomicOp::FetchMax => "fetch_max",
        AtomicOp::FetchMin => "fetch_min",
        AtomicOp::CompareExchange => "compare_exchange",
    }
}

pub type ThreadBody = Box<dyn FnOnce() + Send + 'static>;

struct Runner {
    tx: std::sync::mpsc::Sender<ThreadBody>,
}

impl Runner {
    fn spawn() -> Runner {
        let (tx, rx) = std::sync::mpsc::channel::<ThreadBody>();
        std::thread::Builder::new()
            .stack_size(512 * 1024)
            .spawn(move || {
                while let Ok(job) = rx.recv() {
                    job();
                }
            })
            .expect("spawn runner");
        Runner { tx }
    }
}

thread_local! {
    static POOL: RefCell<Vec<Runner>> = const { RefCell::new(Vec::new()) };
}

/// Runs `threads` to completion under the schedule chosen by `ex`.
pub fn run_threads(ex: &mut Explorer, threads: Vec<ThreadBody>, horizon: usize) -> RunResult {
    let n = threads.len();
    let shared = Arc::new(Shared {
        m: Mutex::new(St {
            status: vec![Status::Starting; n],
            pending: vec![None; n],
            go: None,
            abort: false,
            mutex_owner: HashMap::new(),
            panics: Vec::new(),
        }),
        cv: Condvar::new(),
    });
    // Runner threads are pooled per explorer thread: spawning fresh OS threads for every
    // execution serialises on the process-wide mmap lock when several explorers run in parallel.
    let mut runners: Vec<Runner> = POOL.with(|p| {
        let mut p = p.borrow_mut();
        let mut v = Vec::new();
        while v.len() < n {
            v.push(p.pop().unwrap_or_else(Runner::spawn));
        }
        v
    });
    for (tid, body) in threads.into_iter().enumerate() {
        let sh = shared.clone();
        let job: ThreadBody = Box::new(move || {
            CURRENT.with(|c| *c.borrow_mut() = Some((sh.clone(), tid)));
            let sh2 = sh.clone();
            let obs: Rc<dyn Fn(&Event)> = Rc::new(move |ev: &Event| sh2.on_event(tid, ev));
            verif_hooks::set_thread_observer(Some(obs));
            sh.park(tid, Ev::Start);
            let r = catch_unwind(AssertUnwindSafe(body));
            verif_hooks::set_thread_observer(None);
            CURRENT.with(|c| *c.borrow_mut() = None);
            let mut st = sh.m.lock().unwrap();
            if let Err(p) = r {
                let msg = if let Some(s) = p.downcast_ref::<&str>() {
                    s.to_string()
                } else if let Some(s) = p.downcast_ref::<String>() {
                    s.clone()
                } else {
                    "panic".to_string()
                };
                st.panics.push((tid, msg));
            }
            st.status[tid] = Status::Finished;
            sh.cv.notify_all();
        });
        runners[tid].tx.send(job).expect("runner thread alive");
    }

    let mut res = RunResult::default();
    let mut last: Option<usize> = None;
    let mut steps = 0usize;
    // Warm-up: every thread runs, one after the other in id order, from its start to its first
    // scheduling point. These segments contain no hooked operation, so they commute with
    // everything the scheduler models; no choice is recorded for them.
    for tid in 0..n {
        let mut st = shared.m.lock().unwrap();
        while st.go.is_some()
            || st
                .status
                .iter()
                .any(|s| matches!(s, Status::Starting | Status::Running))
        {
            st = shared.cv.wait(st).unwrap();
        }
        debug_assert_eq!(st.pending[tid], Some(Ev::Start));
        st.go = Some(tid);
        st.status[tid] = Status::Running;
        shared.cv.notify_all();
    }
    loop {
        let mut st = shared.m.lock().unwrap();
        while st.go.is_some()
            || st
                .status
                .iter()
                .any(|s| matches!(s, Status::Starting | Status::Running))
        {
            st = shared.cv.wait(st).unwrap();
        }
        if st.status.iter().all(|s| *s == Status::Finished) {
            break;
        }
        let mut enabled: Vec<usize> = Vec::new();
        for t in 0..n {
            if st.status[t] == Status::Parked {
                let blocked = match st.pending[t] {
                    Some(Ev::Hook(Event::LockWanted { obj })) => st.mutex_owner.contains_key(&obj),
                    _ => false,
                };
                if !blocked {
                    enabled.push(t);
                }
            }
        }
        if enabled.is_empty() {
            res.deadlock = true;
            break;
        }
        steps += 1;
        if steps > horizon {
            res.horizon_hit = true;
            break;
        }
        // canonical order: the thread that ran last first (if still enabled), then ascending
        let mut order = Vec::with_capacity(enabled.len());
        let mut costs = Vec::with_capacity(enabled.len());
        let cont = last.filter(|l| enabled.contains(l));
        if let Some(l) = cont {
            order.push(l);
            costs.push(0);
        }
        for t in &enabled {
            if Some(*t) != cont {
                order.push(*t);
                costs.push(if cont.is_some() { 1 } else { 0 });
            }
        }
        let k = ex.choose(order.len(), &costs);
        if ex.diverged.is_some() {
            res.horizon_hit = true;
            break;
        }
        let tid = order[k];
        res.preemptions += costs[k];
        res.trace.push((tid, st.pending[tid].unwrap()));
        last = Some(tid);
        st.go = Some(tid);
        st.status[tid] = Status::Running;
        shared.cv.notify_all();
    }
    if res.deadlock || res.horizon_hit {
        // Blocked threads are left parked (leaked); the caller stops exploring this harness.
        // Threads that are not blocked on a mutex are released to run to completion.
        let mut st = shared.m.lock().unwrap();
        if !res.deadlock {
            st.abort = true;
            shared.cv.notify_all();
        }
        res.panics = st.panics.clone();
        drop(st);
        if !res.deadlock {
            // wait until every released thread has finished, then the runners can be reused
            let mut st = shared.m.lock().unwrap();
            while !st.status.iter().all(|s| *s == Status::Finished) {
                st = shared.cv.wait(st).unwrap();
            }
            res.panics = st.panics.clone();
            drop(st);
            POOL.with(|p| p.borrow_mut().append(&mut runners));
        }
        // on deadlock the runners stay blocked for ever and are not reused (leaked)
        return res;
    }
    res.panics = shared.m.lock().unwrap().panics.clone();
    POOL.with(|p| p.borrow_mut().append(&mut runners));
    res
}

/// Number of interleavings of threads with the given step counts (for the exhaustiveness
/// self-check of harnesses without blocking): (a+b+c)! / (a! b! c!).
pub fn multinomial(counts: &[usize]) -> u128 {
    let mut r: u128 = 1;
    let mut total: u128 = 0;
    for c in counts {
        for i in 1..=*c as u128 {
            total += 1;
            r = r * total / i;
        }
    }
    r
}
