// Copies src/bitmap/backend/atomic_bitmap.rs of the repository under test, switching its atomic
// types to loom's and its trait imports to the public paths of the vm-memory crate.
fn main() {
    let repo = std::env::var("VERIF_REPO_DIR").unwrap_or_else(|_| "/repo".to_string());
    let src = format!("{}/src/bitmap/backend/atomic_bitmap.rs", repo);
    println!("cargo:rerun-if-changed={}", src);
    println!("cargo:rerun-if-env-changed=VERIF_REPO_DIR");
    let text = std::fs::read_to_string(&src).expect("read atomic_bitmap.rs");
    let mut out = String::new();
    let mut skip_next = false;
    for line in text.lines() {
        let t = line.trim_start();
        if t.starts_with("#[cfg(test)]") {
            break; // the unit tests follow
        }
        if skip_next {
            skip_next = false;
            continue;
        }
        if t.starts_with("//!") {
            continue;
        }
        if t.starts_with("#[cfg(feature = \"verif-hooks\")]") {
            skip_next = true; // drop the hooked import
            continue;
        }
        if t.starts_with("#[cfg(not(feature = \"verif-hooks\"))]") {
            continue; // keep the plain import that follows
        }
        let l = line
            .replace("use std::sync::atomic::{AtomicU64, Ordering};", "use loom::sync::atomic::{AtomicU64, Ordering};")
            .replace("use crate::bitmap::", "use vm_memory::bitmap::");
        out.push_str(&l);
        out.push('\n');
    }
    assert!(out.contains("loom::sync::atomic"), "the atomic import of atomic_bitmap.rs was not found");
    let path = std::path::Path::new(&std::env::var("OUT_DIR").unwrap()).join("atomic_bitmap_loom.rs");
    std::fs::write(path, out).unwrap();

    // src/atomic_integer.rs with loom's atomic types: the AtomicInteger implementations are what
    // every Bytes::store / Bytes::load ends in, including the ordering they hand on
    let src = format!("{}/src/atomic_integer.rs", repo);
    println!("cargo:rerun-if-changed={}", src);
    let text = std::fs::read_to_string(&src).expect("read atomic_integer.rs");
    let mut out = String::new();
    for line in text.lines() {
        let t = line.trim_start();
        if t.starts_with("#[cfg(test)]") {
            break;
        }
        if t.starts_with("//!") {
            continue;
        }
        out.push_str(&line.replace("std::sync::atomic::", "loom::sync::atomic::"));
        out.push('\n');
    }
    assert!(out.contains("loom::sync::atomic::AtomicU32"), "atomic_integer.rs does not look as expected");
    let path = std::path::Path::new(&std::env::var("OUT_DIR").unwrap()).join("atomic_integer_loom.rs");
    std::fs::write(path, out).unwrap();
}
