//! C08 under loom (C11 memory model). Writes an evidence part and VIOLATION lines like the other checks.

#[path = "../../src/report.rs"]
mod report;

#[allow(dead_code, unused_imports, clippy::all)]
mod bm {
    include!(concat!(env!("OUT_DIR"), "/atomic_bitmap_loom.rs"));
}

#[allow(dead_code, unused_imports, clippy::all)]
mod ai {
    include!(concat!(env!("OUT_DIR"), "/atomic_integer_loom.rs"));
}

use bm::AtomicBitmap;
use report::{Ctx, Tier};
use serde_json::json;
use std::collections::BTreeSet;
use std::num::NonZeroUsize;
use std::sync::atomic::{AtomicU64, Ordering};
use std::sync::Mutex;

#[derive(Clone, Debug)]
enum Op {
    SetBit(usize),
    SetRange(usize, usize),
    ResetBit(usize),
    Harvest,
    Clone,
    /// single-page set_addr_range that first looks whether the (only) harvest of the harness has
    /// already returned; if it has, the page must be set at the end
    SetRangeAfter(usize),
}

fn bits(words: &[u64]) -> BTreeSet<usize> {
    let mut s = BTreeSet::new();
    for (w, v) in words.iter().enumerate() {
        for b in 0..64 {
            if v & (1u64 << b) != 0 {
                s.insert(w * 64 + b);
            }
        }
    }
    s
}

/// One harness: every thread runs its operations on one shared bitmap; the oracle runs after all
/// threads joined, in every execution loom generates.
fn run_harness(ctx: &Ctx, name: &'static str, pages: usize, threads: Vec<Vec<Op>>, bound: Option<usize>) {
    static ITER: AtomicU64 = AtomicU64::new(0);
    ITER.store(0, Ordering::SeqCst);
    let outcomes: &'static Mutex<BTreeSet<String>> = Box::leak(Box::new(Mutex::new(BTreeSet::new())));
    let violation: &'static Mutex<Option<String>> = Box::leak(Box::new(Mutex::new(None)));
    let mut b = loom::model::Builder::new();
    b.preemption_bound = bound;
    let th = threads.clone();
    let res = std::panic::catch_unwind(std::panic::AssertUnwindSafe(|| {
        b.check(move || {
            ITER.fetch_add(1, Ordering::Relaxed);
            let bmap = loom::sync::Arc::new(AtomicBitmap::new(pages, NonZeroUsize::new(1).unwrap()));
            let harvest_done = loom::sync::Arc::new(loom::sync::atomic::AtomicBool::new(false));
            let must_be_set: loom::sync::Arc<std::sync::Mutex<Vec<usize>>> = loom::sync::Arc::new(std::sync::Mutex::new(Vec::new()));
            let mut handles = Vec::new();
            for ops in th.clone() {
                let bm = bmap.clone();
                let harvest_done = harvest_done.clone();
                let must_be_set = must_be_set.clone();
                handles.push(loom::thread::spawn(move || {
                    let mut outs: Vec<(bool, Vec<u64>)> = Vec::new();
                    for op in ops {
                        match op {
                            Op::SetRangeAfter(p) => {
                                let after = harvest_done.load(loom::sync::atomic::Ordering::SeqCst);
                                bm.set_addr_range(p, 1);
                                if after {
                                    must_be_set.lock().unwrap().push(p);
                                }
                            }
                            Op::SetBit(p) => bm.set_bit(p),
                            Op::SetRange(s, l) => bm.set_addr_range(s, l),
                            Op::ResetBit(p) => bm.reset_bit(p),
                            Op::Harvest => {
                                outs.push((true, bm.get_and_reset()));
                                harvest_done.store(true, loom::sync::atomic::Ordering::SeqCst);
                            }
                            Op::Clone => outs.push((false, AtomicBitmap::clone(&bm).get_and_reset())),
                        }
                    }
                    outs
                }));
            }
            let mut reported: std::collections::BTreeMap<usize, usize> = Default::default();
            let mut outcome = Vec::new();
            let mut clones: Vec<BTreeSet<usize>> = Vec::new();
            for h in handles {
                for (is_harvest, words) in h.join().unwrap() {
                    let s = bits(&words);
                    outcome.push(format!("{}{:?}", if is_harvest { "h" } else { "c" }, s));
                    if is_harvest {
                        for p in s {
                            *reported.entry(p).or_insert(0) += 1;
                        }
                    } else {
                        clones.push(s);
                    }
                }
            }
            let fin = bits(&bmap.get_and_reset());
            outcome.push(format!("f{:?}", fin));
            for p in &fin {
                *reported.entry(*p).or_insert(0) += 1;
            }
            let mut marked: std::collections::BTreeMap<usize, usize> = Default::default();
            let mut reset: BTreeSet<usize> = BTreeSet::new();
            for ops in &th {
                for op in ops {
                    match op {
                        Op::SetBit(p) | Op::SetRangeAfter(p) => *marked.entry(*p).or_insert(0) += 1,
                        Op::SetRange(s, l) => {
                            for p in *s..*s + *l {
                                *marked.entry(p).or_insert(0) += 1
                            }
                        }
                        Op::ResetBit(p) => {
                            reset.insert(*p);
                        }
                        _ => {}
                    }
                }
            }
            let mut bad: Option<String> = None;
            for (p, n) in &reported {
                match marked.get(p) {
                    None => bad = Some(format!("page {} reported but nobody marked it", p)),
                    Some(m) if n > m => bad = Some(format!("page {} reported {} times, marked {} time(s)", p, n, m)),
                    _ => {}
                }
                if *p >= pages {
                    bad = Some(format!("page {} beyond the page count reported", p));
                }
            }
            for p in marked.keys() {
                if !reset.contains(p) && reported.get(p).copied().unwrap_or(0) == 0 {
                    bad = Some(format!("page {} was marked, never reset, but neither reported by a fetch-and-clear nor set at the end", p));
                }
            }
            for p in must_be_set.lock().unwrap().iter() {
                if !fin.contains(p) {
                    bad = Some(format!("page {} was marked after the only fetch-and-clear had returned, but is not set at the end", p));
                }
            }
            for c in &clones {
                for p in c {
                    if !marked.contains_key(p) {
                        bad = Some(format!("clone shows page {} that nobody marked", p));
                    }
                }
            }
            outcomes.lock().unwrap().insert(outcome.join(";"));
            if let Some(b) = bad {
                *violation.lock().unwrap() = Some(format!("{} (outcome {})", b, outcome.join(";")));
                panic!("property violated");
            }
        });
    }));
    let iters = ITER.load(Ordering::SeqCst);
    ctx.add_traces(iters);
    ctx.add_states(iters);
    ctx.add_transitions(iters);
    let v = violation.lock().unwrap().clone();
    if let Some(d) = v {
        ctx.fail(&format!("C08/loom/{}/violation", name), &d, json!({"harness": name, "threads": format!("{:?}", threads), "engine": "loom"}));
    } else if res.is_err() {
        ctx.fail(&format!("C08/loom/{}/loom-reported-a-problem", name), "loom aborted the model (deadlock, leak or panic in the code under test)", json!({"harness": name}));
    }
    ctx.sample(json!({"harness": name, "threads": format!("{:?}", threads), "executions": iters, "distinct_outcomes": outcomes.lock().unwrap().len(),
        "preemption_bound": bound.map(|b| json!(b)).unwrap_or(json!("unbounded"))}));
}

/// Message passing through an AtomicInteger of the crate: data written before a store with
/// `so` must be visible to a thread whose load with `lo` saw the stored value. With orderings
/// that synchronise (release-or-stronger store, acquire-or-stronger load) loom reports a data race
/// on the cell exactly when the implementation hands on something weaker than what was requested.
macro_rules! message_passing {
    ($ctx:expr, $A:ty, $name:expr) => {{
        use ai::AtomicInteger;
        use loom::sync::atomic::Ordering as O;
        for (so, lo) in [(O::Release, O::Acquire), (O::SeqCst, O::SeqCst), (O::SeqCst, O::Acquire), (O::Release, O::SeqCst)] {
            static N: AtomicU64 = AtomicU64::new(0);
            N.store(0, Ordering::SeqCst);
            let res = std::panic::catch_unwind(|| {
                loom::model(move || {
                    N.fetch_add(1, Ordering::Relaxed);
                    let flag = loom::sync::Arc::new(<$A as AtomicInteger>::new(0));
                    let data = loom::sync::Arc::new(loom::cell::UnsafeCell::new(0u32));
                    let (f1, d1) = (flag.clone(), data.clone());
                    let t = loom::thread::spawn(move || {
                        // SAFETY: published through the flag below
                        d1.with_mut(|p| unsafe { *p = 42 });
                        AtomicInteger::store(&*f1, 1, so);
                    });
                    if AtomicInteger::load(&*flag, lo) == 1 {
                        // SAFETY: the store that made the flag 1 was ordered after the write
                        let v = data.with(|p| unsafe { *p });
                        assert_eq!(v, 42);
                    }
                    t.join().unwrap();
                });
            });
            let n = N.load(Ordering::SeqCst);
            $ctx.add_traces(n);
            $ctx.add_states(n);
            $ctx.add_transitions(n);
            if res.is_err() {
                $ctx.fail(
                    &format!("C06/loom/{}/ordering-weaker-than-requested", $name),
                    &format!("message passing through {} with store({:?}) / load({:?}): loom found an execution in which the data written before the store is not ordered before the read after the load (the implementation used a weaker ordering than the one requested)", $name, so, lo),
                    json!({"type": $name, "store": format!("{:?}", so), "load": format!("{:?}", lo), "engine": "loom"}),
                );
            }
        }
    }};
}

fn main_c06(tier: Tier) -> i32 {
    let ctx = Ctx::new("C06", tier, "model_checking");
    ctx.set_rule("loom (C11 memory model): src/atomic_integer.rs compiled from the current tree with loom's atomic types; message passing through AtomicInteger::store / load for six integer types x {Release/Acquire, SeqCst/SeqCst, SeqCst/Acquire, Release/SeqCst}: in every execution loom generates, the data written before the store is visible after a load that saw it. This decides 'with the requested ordering' as far as the acquire/release strength goes; loom does not distinguish a SeqCst access from an AcqRel one, so a SeqCst store carried out as Release is not detected.");
    ctx.assume("loom's model of the C11 memory model (SeqCst accesses are treated like acquire/release accesses)");
    message_passing!(ctx, loom::sync::atomic::AtomicU8, "AtomicU8");
    message_passing!(ctx, loom::sync::atomic::AtomicU16, "AtomicU16");
    message_passing!(ctx, loom::sync::atomic::AtomicU32, "AtomicU32");
    message_passing!(ctx, loom::sync::atomic::AtomicU64, "AtomicU64");
    message_passing!(ctx, loom::sync::atomic::AtomicUsize, "AtomicUsize");
    message_passing!(ctx, loom::sync::atomic::AtomicI32, "AtomicI32");
    ctx.set_exhaustive(false);
    ctx.finish()
}

fn main() {
    let args: Vec<String> = std::env::args().collect();
    if args.iter().any(|a| a == "C06") {
        let tier = if args.iter().any(|a| a == "thorough") { Tier::Thorough } else { Tier::Quick };
        std::process::exit(main_c06(tier));
    }
    let tier = if args.iter().any(|a| a == "thorough") { Tier::Thorough } else { Tier::Quick };
    let ctx = Ctx::new("C08", tier, "model_checking");
    ctx.set_rule("loom (C11 memory model): AtomicBitmap compiled from the current tree with loom's atomics; every execution loom generates (all interleavings and all orderings permitted by the memory orders used) of small marker / harvester / clone harnesses on a 70-page bitmap; same per-page conservation oracle as the SC explorer, plus: a mark that saw (through a SeqCst flag) that the only fetch-and-clear had returned must be set at the end. states/transitions/traces = executions enumerated by loom.");
    ctx.assume("loom's model of the C11 memory model; harness sizes are smaller than under the SC scheduler");
    use Op::*;
    run_harness(&ctx, "two-markers-same-word", 70, vec![vec![SetBit(3)], vec![SetBit(5)]], None);
    run_harness(&ctx, "marker-range-vs-harvest", 70, vec![vec![SetRange(63, 2)], vec![Harvest]], None);
    run_harness(&ctx, "two-markers-vs-harvest", 70, vec![vec![SetRange(63, 2)], vec![SetBit(63)], vec![Harvest]], Some(3));
    run_harness(&ctx, "reset-vs-mark", 70, vec![vec![ResetBit(10)], vec![SetBit(11), SetBit(10)]], None);
    run_harness(&ctx, "marker-vs-clone", 70, vec![vec![SetRange(63, 2)], vec![Clone]], None);
    run_harness(&ctx, "remark-vs-harvest", 70, vec![vec![SetRangeAfter(65), SetRangeAfter(65)], vec![Harvest]], None);
    if tier.thorough() {
        run_harness(&ctx, "remark-vs-harvest-vs-marker", 70, vec![vec![SetRangeAfter(65), SetRangeAfter(65)], vec![Harvest], vec![SetBit(65)]], Some(3));
        run_harness(&ctx, "two-harvesters-vs-marker", 70, vec![vec![Harvest], vec![Harvest], vec![SetRange(63, 2)]], Some(3));
        run_harness(&ctx, "marker-range-3-vs-harvest-twice", 70, vec![vec![SetRange(62, 3)], vec![Harvest, Harvest]], None);
    }
    ctx.set_exhaustive(false);
    std::process::exit(ctx.finish());
}
